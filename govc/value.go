package main

import (
	"fmt"
	"go/types"
	"strings"

	"golang.org/x/tools/go/ssa"
)

type VKind int

const (
	VNone VKind = iota
	VScalar
	VSlice
	VTuple
	VLoc
	VClosure
	VIter
	VFunc
)

// Loc is a symbolic memory location: heap base name + index terms.
type Loc struct {
	Base string   // heap base name (F_..., C_..., E_..., G_...)
	Idx  []string // index terms (ref; or arr, idx); empty for globals
	T    types.Type
}

type Val struct {
	Kind               VKind
	T                  string // scalar term
	Sort               string
	Arr, Off, Len, Cap string // slice components (Int terms)
	Loc                *Loc
	Elems              []Val
	Fn                 *ssa.Function
	Binds              []Val
	GoT                types.Type
	// iterator over a map (range)
	IterMap  string // map ref term
	IterVis  string // visited set array term name (heap base) -- ghost
	IterKT   types.Type
	IterVT   types.Type
	IterID   string
	IsString bool
}

func scalar(t, sort string, gt types.Type) Val {
	return Val{Kind: VScalar, T: t, Sort: sort, GoT: gt}
}

func (v Val) String() string {
	switch v.Kind {
	case VScalar:
		return v.T
	case VSlice:
		return fmt.Sprintf("slice(%s,%s,%s,%s)", v.Arr, v.Off, v.Len, v.Cap)
	case VTuple:
		var xs []string
		for _, e := range v.Elems {
			xs = append(xs, e.String())
		}
		return "(" + strings.Join(xs, ", ") + ")"
	case VLoc:
		return fmt.Sprintf("&%s%v", v.Loc.Base, v.Loc.Idx)
	case VClosure:
		return "closure " + v.Fn.Name()
	case VFunc:
		return "func " + v.Fn.Name()
	case VIter:
		return "iter " + v.IterMap
	}
	return "<none>"
}

// Mode-dependent sort mapping.
type Sorter struct {
	BV bool
}

func isNamed(t types.Type, pkg, name string) bool {
	n, ok := t.(*types.Named)
	if !ok {
		return false
	}
	o := n.Obj()
	return o.Name() == name && o.Pkg() != nil && o.Pkg().Path() == pkg
}

func intWidth(b *types.Basic) (int, bool) {
	switch b.Kind() {
	case types.Int8:
		return 8, true
	case types.Int16:
		return 16, true
	case types.Int32:
		return 32, true
	case types.Int64, types.Int:
		return 64, true
	case types.Uint8:
		return 8, false
	case types.Uint16:
		return 16, false
	case types.Uint32:
		return 32, false
	case types.Uint64, types.Uint, types.Uintptr:
		return 64, false
	case types.UntypedInt, types.UntypedRune:
		return 64, true
	}
	return 0, false
}

// scalarSort returns the SMT sort for a scalar Go type, or "" if composite.
func (s *Sorter) scalarSort(t types.Type) string {
	if isNamed(t, "reflect", "Value") {
		return SRV
	}
	if isNamed(t, "reflect", "Kind") {
		return SInt
	}
	switch u := t.Underlying().(type) {
	case *types.Basic:
		switch {
		case u.Info()&types.IsBoolean != 0:
			return SBool
		case u.Info()&types.IsString != 0:
			return SStr
		case u.Info()&types.IsInteger != 0:
			if s.BV {
				w, _ := intWidth(u)
				return bvSort(w)
			}
			return SInt
		case u.Kind() == types.Float32:
			return SF32
		case u.Info()&types.IsFloat != 0:
			return SF64
		case u.Info()&types.IsComplex != 0:
			return "Cx" // complex numbers: an opaque sort (declared in the core prelude)
		case u.Kind() == types.UnsafePointer, u.Kind() == types.UntypedNil:
			return SInt
		}
	case *types.Pointer, *types.Map, *types.Chan, *types.Signature, *types.Interface:
		return SInt
	case *types.Struct:
		// struct values are only supported as opaque objects addressed by reference
		return ""
	}
	return ""
}

func isSliceType(t types.Type) bool {
	_, ok := t.Underlying().(*types.Slice)
	return ok
}

func isStructType(t types.Type) bool {
	if isNamed(t, "reflect", "Value") {
		return false
	}
	_, ok := t.Underlying().(*types.Struct)
	return ok
}

func isArrayType(t types.Type) bool {
	_, ok := t.Underlying().(*types.Array)
	return ok
}

func derefType(t types.Type) types.Type {
	if p, ok := t.Underlying().(*types.Pointer); ok {
		return p.Elem()
	}
	return nil
}

func shortPkgType(t types.Type) string {
	return types.TypeString(t, func(p *types.Package) string { return p.Name() })
}
