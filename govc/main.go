package main

import (
	"encoding/json"
	"flag"
	"fmt"
	"os"
	"sort"
	"strings"
	"sync"
	"time"
)

type FuncReport struct {
	Name     string   `json:"name"`
	Key      string   `json:"key"`
	Paths    int      `json:"paths"`
	Obs      int      `json:"obligations"`
	Errors   []string `json:"errors,omitempty"`
	Trusted  []string `json:"trusted,omitempty"`
	Assumes  []string `json:"assumes,omitempty"`
	Arith    string   `json:"arith"`
	GenSecs  float64  `json:"gen_seconds"`
	Contract string   `json:"contract"`
}

type Report struct {
	Property    string         `json:"property"`
	Tier        string         `json:"tier"`
	Repo        string         `json:"repo"`
	Funcs       []*FuncReport  `json:"functions"`
	Obligations []*Obligation  `json:"obligations"`
	Named       map[string]any `json:"-"`
	Errors      []string       `json:"errors,omitempty"`
	WallS       float64        `json:"wall_s"`
	SolverS     float64        `json:"solver_s"`
	BySolver    map[string]int `json:"by_solver"`
	LoadS       float64        `json:"load_s"`
}

func hasTag(tags []string, p string) bool {
	for _, t := range tags {
		if t == p {
			return true
		}
	}
	return false
}

func contractMentions(c *FuncContract, prop string) bool {
	return hasTag(c.Props, prop) || hasTag(c.AlsoProps, prop)
}

func main() {
	repo := flag.String("repo", "/repo", "repository root")
	spec := flag.String("spec", "/verif/spec", "spec directory (prelude, externs)")
	prop := flag.String("prop", "", "property id (empty: all)")
	tier := flag.String("tier", "quick", "quick|thorough")
	out := flag.String("out", "", "result JSON file")
	work := flag.String("work", "", "work directory for SMT files")
	fnFilter := flag.String("fn", "", "only functions whose key contains this")
	timeout := flag.Int("timeout", 0, "per-obligation timeout in seconds")
	workers := flag.Int("workers", 14, "parallel obligations")
	list := flag.Bool("list", false, "list contract blocks and exit")
	verbose := flag.Bool("v", false, "verbose")
	flag.Parse()
	start := time.Now()
	v, err := NewVerifier(*repo, *spec)
	if err != nil {
		fmt.Fprintln(os.Stderr, "govc: load failed:", err)
		os.Exit(2)
	}
	loadS := time.Since(start).Seconds()
	if *work == "" {
		d, _ := os.MkdirTemp("", "govc")
		*work = d
	}
	os.RemoveAll(*work)
	to := *timeout
	if to == 0 {
		to = 15
		if *tier == "thorough" {
			to = 60
		}
	}
	rep := &Report{Property: *prop, Tier: *tier, Repo: *repo, BySolver: map[string]int{}, LoadS: loadS}
	keys := sortedKeys(v.C.Funcs)
	if *list {
		for _, k := range keys {
			c := v.C.Funcs[k]
			kind := "func"
			if c.Extern {
				kind = "extern"
			} else if c.Iface {
				kind = "iface"
			}
			fmt.Printf("%-7s %s props=%v\n", kind, k, c.Props)
		}
		return
	}
	var fes []*FE
	for _, k := range keys {
		c := v.C.Funcs[k]
		if c.Extern || c.Iface {
			continue
		}
		if *prop != "" && !contractMentions(c, *prop) {
			continue
		}
		if *fnFilter != "" && !strings.Contains(k, *fnFilter) {
			continue
		}
		fn := v.fns[k]
		if fn == nil {
			rep.Obligations = append(rep.Obligations, &Obligation{Name: shortName(k) + ":target-present", Func: shortName(k), Kind: "target-present", Tags: c.Props, Result: "failed", Detail: "contract block names a function that does not exist in the current tree", Src: c.File})
			continue
		}
		if c.Trusted != "" {
			continue
		}
		fe := &FE{V: v, Fn: fn, C: c, S: &Sorter{BV: c.Arith == "bv"}, gdecls: map[string]string{}, strLits: map[string]string{}, prefixes: map[string]bool{}, usedExt: map[string]bool{}, usedAsm: map[string]bool{}}
		fe.FnName = shortName(k)
		fe.nopanic = c.NoPanic != nil || c.NoPanicOwn != nil
		for _, nm := range reflectKindNames {
			fe.strLit(nm)
		}
		fe.strLit("int")
		fe.strLit("uint")
		fe.strLit("float")
		fes = append(fes, fe)
	}
	var wg sync.WaitGroup
	sem := make(chan struct{}, 8)
	for _, fe := range fes {
		wg.Add(1)
		go func(fe *FE) {
			defer wg.Done()
			sem <- struct{}{}
			defer func() { <-sem }()
			t0 := time.Now()
			fe.checkStructuralRecover()
			fe.Run()
			fr := &FuncReport{Name: fe.FnName, Key: v.contractKey(fe.Fn), Paths: fe.paths, Obs: len(fe.Obs), Errors: fe.errs, Arith: fe.C.Arith, GenSecs: time.Since(t0).Seconds(), Contract: fmt.Sprintf("%s:%d", shortFile(fe.C.File), fe.C.Line)}
			fr.Trusted = sortedKeys(fe.usedExt)
			fr.Assumes = sortedKeys(fe.usedAsm)
			v.mu.Lock()
			rep.Funcs = append(rep.Funcs, fr)
			v.mu.Unlock()
			if *verbose {
				fmt.Fprintf(os.Stderr, "generated %s: %d paths, %d obligations, %d errors\n", fe.FnName, fe.paths, len(fe.Obs), len(fe.errs))
			}
		}(fe)
	}
	wg.Wait()
	sort.Slice(rep.Funcs, func(i, j int) bool { return rep.Funcs[i].Name < rep.Funcs[j].Name })
	solveAll(fes, *work, to, *workers, *tier == "thorough")
	for _, fe := range fes {
		for _, e := range fe.errs {
			rep.Errors = append(rep.Errors, fe.FnName+": "+e)
			// a generation error means the function could not be verified: fail closed
		}
		if len(fe.errs) > 0 {
			rep.Obligations = append(rep.Obligations, &Obligation{Name: fe.FnName + ":generated", Func: fe.FnName, Kind: "generated", Tags: fe.C.Props, Result: "failed", Detail: strings.Join(fe.errs, " | ")})
		}
		for _, ob := range fe.Obs {
			if *prop != "" && !hasTag(ob.Tags, *prop) {
				continue
			}
			if ob.Smoke {
				// vacuity probe: `false` must not be provable
				if ob.Result == "unsat" {
					ob.Result = "vacuous"
				} else {
					ob.Result = "unsat"
					ob.Solver = "smoke(" + ob.Solver + ")"
				}
			}
			rep.SolverS += ob.Seconds
			rep.BySolver[strings.TrimSuffix(ob.Solver, "(cached)")]++
			rep.Obligations = append(rep.Obligations, ob)
		}
	}
	rep.WallS = time.Since(start).Seconds()
	failed := 0
	for _, ob := range rep.Obligations {
		if ob.Result != "unsat" {
			failed++
			if *verbose || true {
				fmt.Fprintf(os.Stderr, "FAILED %s [%s] %s %s\n   src: %s\n   path: %s\n   file: %s\n", ob.Name, ob.Result, ob.Pos, ob.Detail, ob.Src, ob.Path, ob.File)
			}
		}
	}
	if *out != "" {
		b, _ := json.MarshalIndent(rep, "", " ")
		os.WriteFile(*out, b, 0o644)
	}
	fmt.Fprintf(os.Stderr, "govc: %s: %d functions, %d obligations, %d failed, load %.1fs, total %.1fs\n", *prop, len(rep.Funcs), len(rep.Obligations), failed, loadS, rep.WallS)
	if len(rep.Errors) > 0 {
		for _, e := range rep.Errors {
			fmt.Fprintln(os.Stderr, "ERROR", e)
		}
	}
	if failed > 0 {
		os.Exit(1)
	}
}
