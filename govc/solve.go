package main

import (
	"bytes"
	"context"
	"crypto/sha1"
	"fmt"
	"os"
	"os/exec"
	"path/filepath"
	"strings"
	"sync"
	"time"
)

// emit builds the SMT-LIB text of an obligation.
func (fe *FE) emit(ob *Obligation) string { return fe.emitOpts(ob, false) }

func (fe *FE) emitOpts(ob *Obligation, noQuant bool) string {
	var sb strings.Builder
	sb.WriteString("(set-option :produce-models true)\n(set-logic ALL)\n")
	if noQuant {
		for _, ln := range strings.Split(smtPreludeCore, "\n") {
			if !strings.Contains(ln, "(forall ") {
				sb.WriteString(ln + "\n")
			}
		}
	} else {
		sb.WriteString(smtPreludeCore)
	}
	body := new(strings.Builder)
	var subs []string
	for _, n := range fe.gorder {
		body.WriteString(fe.gdecls[n] + "\n")
		if strings.HasPrefix(n, "sub_") {
			subs = append(subs, n)
		}
	}
	// embedded struct fields are objects of their own: distinct from allocated objects (negative references),
	// from each other, and injective in their owner
	if !noQuant {
		for i, a := range subs {
			fmt.Fprintf(body, "(assert (forall ((x Int)) (! (< (%s x) 0) :pattern ((%s x)))))\n", a, a)
			fmt.Fprintf(body, "(assert (forall ((x Int) (y Int)) (! (=> (= (%s x) (%s y)) (= x y)) :pattern ((%s x) (%s y)))))\n", a, a, a, a)
			for _, b := range subs[i+1:] {
				fmt.Fprintf(body, "(assert (forall ((x Int) (y Int)) (! (not (= (%s x) (%s y))) :pattern ((%s x) (%s y)))))\n", a, b, a, b)
			}
		}
	}
	if !noQuant {
		for _, name := range sortedKeys(fe.refHeaps) {
			init := name + "!0"
			if _, declared := fe.gdecls[init]; !declared {
				continue
			}
			if fe.refHeaps[name] == 1 {
				fmt.Fprintf(body, "(assert (forall ((a Int)) (! (=> (<= a cnt!entry) (<= (select %s a) cnt!entry)) :pattern ((select %s a)))))\n", init, init)
			} else if fe.refHeaps[name] == 2 && strings.HasPrefix(name, "E_") && !strings.HasSuffix(name, ".arr") {
				fmt.Fprintf(body, "(assert (forall ((a Int) (i Int)) (! (=> (<= a cnt!entry) (<= (select (select %s a) i) cnt!entry)) :pattern ((select (select %s a) i)))))\n", init, init)
			}
		}
	}
	for _, a := range fe.gaxioms {
		body.WriteString("(assert " + a + ")\n")
	}
	for _, d := range ob.Decls {
		body.WriteString(d + "\n")
	}
	for _, f := range ob.Facts {
		body.WriteString("(assert " + f + ")\n")
	}
	body.WriteString("(assert (not " + ob.Goal + "))\n")
	bs := body.String()
	if strings.Contains(bs, "strlt") {
		sb.WriteString(`(assert (forall ((a Str)) (not (strlt a a))))
(assert (forall ((a Str) (b Str)) (! (or (= a b) (strlt a b) (strlt b a)) :pattern ((strlt a b)))))
(assert (forall ((a Str) (b Str)) (! (not (and (strlt a b) (strlt b a))) :pattern ((strlt a b)))))
`)
	}
	// string literals
	for i, s := range fe.strOrder {
		n := fe.strLits[s]
		fmt.Fprintf(&sb, "(declare-const %s Str) ; %q\n(assert (= (strlen %s) %d))\n", n, truncate(s, 40), n, len(s))
		if !strings.HasPrefix(s, "line ") {
			fmt.Fprintf(&sb, "(assert (= (fmtline %s) (- 1)))\n", n)
		}
		_ = i
	}
	if len(fe.strOrder) > 1 {
		sb.WriteString("(assert (distinct")
		for _, s := range fe.strOrder {
			sb.WriteString(" " + fe.strLits[s])
		}
		sb.WriteString("))\n")
	}
	if strings.Contains(bs, "hasPrefix") {
		for _, a := range fe.strOrder {
			for _, b := range fe.strOrder {
				if len(b) <= 6 && len(a) <= 16 {
					if strings.HasPrefix(a, b) {
						fmt.Fprintf(&sb, "(assert (hasPrefix %s %s))\n", fe.strLits[a], fe.strLits[b])
					} else {
						fmt.Fprintf(&sb, "(assert (not (hasPrefix %s %s)))\n", fe.strLits[a], fe.strLits[b])
					}
				}
			}
		}
	}
	if strings.Contains(bs, "kindName") {
		// kindName is injective on 0..26: kindIdx is its inverse
		sb.WriteString("(declare-fun kindIdx (Str) Int)\n")
		for k, nm := range reflectKindNames {
			fmt.Fprintf(&sb, "(assert (= (kindName %d) %s))\n", k, fe.strLits[nm])
			fmt.Fprintf(&sb, "(assert (= (kindIdx %s) %d))\n", fe.strLits[nm], k)
		}
		sb.WriteString("(assert (forall ((k Int)) (! (=> (and (<= 0 k) (<= k 26)) (= (kindIdx (kindName k)) k)) :pattern ((kindName k)))))\n")
	}
	if noQuant {
		for _, ln := range strings.Split(fe.V.smtPrelude, "\n") {
			if !strings.Contains(ln, "(forall ") {
				sb.WriteString(ln + "\n")
			}
		}
	} else {
		sb.WriteString(fe.V.smtPrelude)
	}
	sb.WriteString(bs)
	sb.WriteString("(check-sat)\n(get-model)\n")
	return sb.String()
}

type solverSpec struct {
	name string
	argv func(file string, timeout int) []string
}

var solvers = []solverSpec{
	{"z3-new", func(f string, t int) []string { return []string{"z3-new", "-smt2", fmt.Sprintf("-T:%d", t), f} }},
	{"z3", func(f string, t int) []string { return []string{"z3", "-smt2", fmt.Sprintf("-T:%d", t), f} }},
	{"cvc5", func(f string, t int) []string {
		return []string{"cvc5", "--incremental", fmt.Sprintf("--tlimit=%d", t*1000), f}
	}},
}

type solveResult struct {
	res    string
	solver string
	out    string
	secs   float64
}

// race runs all solvers on file; first definite answer wins.
func race(file string, timeout int, only string) solveResult {
	ctx, cancel := context.WithTimeout(context.Background(), time.Duration(timeout+2)*time.Second)
	defer cancel()
	type r struct {
		res, solver, out string
		secs             float64
	}
	ch := make(chan r, len(solvers))
	n := 0
	start := time.Now()
	for _, s := range solvers {
		if only != "" && s.name != only {
			continue
		}
		n++
		go func(s solverSpec) {
			argv := s.argv(file, timeout)
			cmd := exec.CommandContext(ctx, argv[0], argv[1:]...)
			var out bytes.Buffer
			cmd.Stdout = &out
			cmd.Stderr = &out
			_ = cmd.Run()
			text := out.String()
			first := strings.TrimSpace(strings.SplitN(text, "\n", 2)[0])
			res := "unknown"
			switch first {
			case "unsat", "sat":
				res = first
			case "timeout":
				res = "timeout"
			}
			// any parse/sort error means the query was not the one we meant: never trust the answer
			for _, ln := range strings.Split(text, "\n") {
				if strings.HasPrefix(ln, "(error") && !strings.Contains(ln, "model is not available") && !strings.Contains(ln, "cannot get model") && !strings.Contains(ln, "Cannot get model") {
					res = "error"
					break
				}
			}
			ch <- r{res, s.name, text, time.Since(start).Seconds()}
		}(s)
	}
	var last r
	last.res = "unknown"
	for i := 0; i < n; i++ {
		x := <-ch
		if x.res == "error" {
			if last.solver == "" || last.res == "error" {
				last = x
			}
			continue
		}
		if x.res == "unsat" || x.res == "sat" {
			cancel()
			return solveResult{x.res, x.solver, x.out, x.secs}
		}
		if x.res == "timeout" || last.solver == "" || last.res == "error" {
			last = x
		}
	}
	return solveResult{last.res, last.solver, last.out, time.Since(start).Seconds()}
}

// solveAll discharges the obligations of fe in parallel.
func solveAll(fes []*FE, outDir string, timeout, workers int, second bool) {
	type job struct {
		fe *FE
		ob *Obligation
	}
	var jobs []job
	for _, fe := range fes {
		for _, ob := range fe.Obs {
			if ob.Result != "" {
				continue
			}
			if ob.Goal == "true" {
				ob.Result = "unsat"
				ob.Solver = "trivial"
				continue
			}
			jobs = append(jobs, job{fe, ob})
		}
	}
	os.MkdirAll(outDir, 0o755)
	var mu sync.Mutex
	cache := map[string]*Obligation{}
	ch := make(chan job)
	var wg sync.WaitGroup
	for w := 0; w < workers; w++ {
		wg.Add(1)
		go func() {
			defer wg.Done()
			for j := range ch {
				text := j.fe.emit(j.ob)
				h := fmt.Sprintf("%x", sha1.Sum([]byte(text)))
				mu.Lock()
				if prev, ok := cache[h]; ok && prev.Result != "" {
					j.ob.Result, j.ob.Solver, j.ob.Seconds, j.ob.Model, j.ob.File = prev.Result, prev.Solver+"(cached)", 0, prev.Model, prev.File
					mu.Unlock()
					continue
				}
				mu.Unlock()
				file0 := filepath.Join(outDir, sanitize(j.ob.Name)+"_"+h[:10]+".smt2")
				os.WriteFile(file0, []byte(text), 0o644)
				file := file0
				to := timeout
				if j.ob.Smoke {
					to = 2
				}
				r, file := j.fe.decide(j.ob, file, to, 0)
				j.ob.Result, j.ob.Solver, j.ob.Seconds, j.ob.File = r.res, r.solver, r.secs, file
				if r.res == "sat" {
					j.ob.Model = r.out
				} else if r.res != "unsat" {
					j.ob.Detail = truncate(r.out, 400)
					if !j.ob.Smoke {
						// candidate counterexample: drop quantified facts (an over-approximation of the context);
						// the model is only a candidate and must be confirmed by replay on the real code
						ob2 := *j.ob
						ob2.Facts = nil
						for _, f := range j.ob.Facts {
							if !strings.Contains(f, "(forall ") && !strings.Contains(f, "(exists ") {
								ob2.Facts = append(ob2.Facts, f)
							}
						}
						text2 := j.fe.emitOpts(&ob2, true)
						file2 := strings.TrimSuffix(file, ".smt2") + ".qf.smt2"
						os.WriteFile(file2, []byte(text2), 0o644)
						r2 := race(file2, 3, "z3-new")
						if r2.res == "sat" {
							j.ob.Model = "; CANDIDATE model (quantified facts dropped)\n" + r2.out
						}
					}
				}
				if second && r.res == "unsat" {
					// cross-check with a solver of the other family
					other := "cvc5"
					if r.solver == "cvc5" {
						other = "z3-new"
					}
					r2 := race(file, timeout, other)
					if r2.res == "sat" {
						j.ob.Result = "disagree"
						j.ob.Detail = "second solver " + other + " says sat"
					} else if r2.res == "unsat" {
						j.ob.Solver += "+" + other
					}
				}
				mu.Lock()
				cache[h] = j.ob
				mu.Unlock()
				if j.ob.Result == "unsat" && !j.ob.Smoke && os.Getenv("GOVC_KEEP") == "" {
					os.Remove(file)
				}
			}
		}()
	}
	for _, j := range jobs {
		ch <- j
	}
	close(ch)
	wg.Wait()
	// robustness against machine load: a handful of undecided (timeout / unknown) obligations get one more attempt with
	// three times the budget, one at a time; a real violation fails again, a starved solver does not
	var retry []job
	for _, j := range jobs {
		if !j.ob.Smoke && (j.ob.Result == "timeout" || j.ob.Result == "unknown") {
			retry = append(retry, j)
		}
	}
	if len(retry) > 0 && len(retry) <= 8 {
		var rw sync.WaitGroup
		for ri, j := range retry {
			rw.Add(1)
			go func(ri int, j job) {
				defer rw.Done()
				file := filepath.Join(outDir, fmt.Sprintf("%s_retry%d.smt2", sanitize(j.ob.Name), ri))
				os.WriteFile(file, []byte(j.fe.emit(j.ob)), 0o644)
				r, f2 := j.fe.decide(j.ob, file, timeout*3, 0)
				if r.res == "unsat" {
					j.ob.Result, j.ob.Solver, j.ob.Seconds, j.ob.File, j.ob.Detail, j.ob.Model = "unsat", r.solver+"(retry)", j.ob.Seconds+r.secs, f2, "", ""
					os.Remove(file)
				}
			}(ri, j)
		}
		rw.Wait()
	}
}

// decide one obligation: fast path, portfolio, goal splitting (conjunct by conjunct), then case splitting on the
// last join disjunction of the context (states merged at a join point: one case per incoming path).
func (fe *FE) decide(ob *Obligation, file string, to, depth int) (solveResult, string) {
	// fast path: one solver with a short limit; the full portfolio only when it does not decide
	r := race(file, 2, "z3-new")
	if r.res != "unsat" && r.res != "sat" && (ob.Smoke || splitGoal(ob.Goal) == nil) {
		r = race(file, to, "")
	}
	if r.res != "unsat" && r.res != "sat" && !ob.Smoke {
		// the solvers did not decide the goal as a whole: try it conjunct by conjunct
		if pieces := splitGoal(ob.Goal); pieces != nil {
			all := true
			secs := r.secs
			for pi, pg := range pieces {
				ob2 := *ob
				ob2.Goal = pg
				t2 := fe.emit(&ob2)
				f2 := strings.TrimSuffix(file, ".smt2") + fmt.Sprintf(".p%d.smt2", pi)
				os.WriteFile(f2, []byte(t2), 0o644)
				r2 := race(f2, 2, "z3-new")
				if r2.res != "unsat" && r2.res != "sat" {
					r2 = race(f2, to, "")
				}
				if r2.res != "unsat" && r2.res != "sat" && depth < 3 {
					r2, f2 = fe.caseSplit(&ob2, f2, to, depth, r2)
				}
				secs += r2.secs
				if r2.res != "unsat" {
					all = false
					r = r2
					r.secs = secs
					file = f2
					break
				}
				os.Remove(f2)
			}
			if all {
				r = solveResult{"unsat", "split(" + fmt.Sprint(len(pieces)) + ")", "", secs}
			}
			return r, file
		}
	}
	if r.res != "unsat" && r.res != "sat" && !ob.Smoke && depth < 3 {
		r, file = fe.caseSplit(ob, file, to, depth, r)
	}
	return r, file
}

// caseSplit: the context contains (or d1 ... dn) from a state merge; prove the goal under each di separately.
func (fe *FE) caseSplit(ob *Obligation, file string, to, depth int, prev solveResult) (solveResult, string) {
	idx := -1
	var cases []string
	for i := len(ob.Facts) - 1; i >= 0; i-- {
		fe.jmu.Lock()
		cs, ok := fe.joinDisj[ob.Facts[i]]
		fe.jmu.Unlock()
		if ok {
			idx, cases = i, cs
			break
		}
	}
	if idx < 0 {
		return prev, file
	}
	secs := prev.secs
	for ci, c := range cases {
		ob2 := *ob
		ob2.Facts = append([]string(nil), ob.Facts...)
		ob2.Facts[idx] = c
		f2 := strings.TrimSuffix(file, ".smt2") + fmt.Sprintf(".c%d.smt2", ci)
		os.WriteFile(f2, []byte(fe.emit(&ob2)), 0o644)
		r2, f3 := fe.decide(&ob2, f2, to, depth+1)
		secs += r2.secs
		if r2.res != "unsat" {
			r2.secs = secs
			return r2, f3
		}
		os.Remove(f2)
	}
	return solveResult{"unsat", fmt.Sprintf("cases(%d)", len(cases)), "", secs}, file
}
