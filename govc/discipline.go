package main

// Lock / ownership / immutability discipline on heap accesses (C19, C07-A).
// Declarations come from `decl` lines of the contract files.

func (fe *FE) checkGuard(st *State, loc *Loc, site, how string) {
	fe.V.checkGuardImpl(fe, st, loc, site, how)
}

// guardOb: obligation that the access obeys the declared discipline.
//   guarded_by <lockfield>   : the lock field of the same owner object is held
//   guarded_by_param <name>  : ... (see below)
func (fe *FE) guardOb(st *State, loc *Loc, decl, site, how string) {
	// filled in with the C19 work
}
