package main

import (
	"fmt"
	"strings"
)

// Lock / ownership / immutability discipline on heap accesses (C19, C07-A).
// Declarations come from `decl` lines of the contract files.

func (fe *FE) checkGuard(st *State, loc *Loc, site, how string) {
	fe.V.checkGuardImpl(fe, st, loc, site, how)
}

// guardOb: obligation that the access obeys the declared discipline `guarded_by <lockfield>`:
// the lock field of the same owner object is held, unless the owner was allocated by this
// activation (not yet shared).
func (fe *FE) guardOb(st *State, loc *Loc, decl, site, how string) {
	fs := strings.Fields(decl)
	if len(fs) != 2 || (fs[0] != "guarded_by" && fs[0] != "access_under") || len(loc.Idx) == 0 {
		return
	}
	owner := loc.Idx[0]
	if isFreshRefTerm(owner) {
		return
	}
	lockFn := fe.V.guardLockFn[loc.Base]
	if lockFn == "" {
		return
	}
	fe.globalDecl(lockFn, fmt.Sprintf("(declare-fun %s (Int) Int)", lockFn))
	lock := "(" + lockFn + " " + owner + ")"
	held := sel(fe.heapTerm(st, "G_held", arraySort([]string{SInt}, SBool)), lock)
	fe.addOb(st, "race", how+"."+strings.TrimPrefix(loc.Base, "F_")+"@"+site, []string{"C19"}, held, loc.Base+" is declared guarded_by "+fs[1]+": every access needs that lock held")
}

// guardedAccess: accesses to objects registered in st.guarded (cells of captured variables, maps loaded from
// guarded fields, parameters named in a `guard` clause) need their lock.
func (fe *FE) guardedAccess(st *State, ref, what, site string) {
	if fe.scanning || st.guarded == nil {
		return
	}
	lock, ok := st.guarded[ref]
	if !ok {
		return
	}
	held := sel(fe.heapTerm(st, "G_held", arraySort([]string{SInt}, SBool)), lock)
	fe.addOb(st, "race", what+"@"+site, []string{"C19"}, held, "access to state that is shared with concurrently running goroutines needs its lock held")
}

func (fe *FE) guardedBaseAccess(st *State, loc *Loc, how string) {
	if fe.scanning || st.guardedBases == nil {
		return
	}
	lock, ok := st.guardedBases[stripComp(loc.Base)]
	if !ok || isFreshRefTerm(loc.Idx[0]) {
		return
	}
	held := sel(fe.heapTerm(st, "G_held", arraySort([]string{SInt}, SBool)), lock)
	fe.addOb(st, "race", how+"."+strings.TrimPrefix(stripComp(loc.Base), "F_")+"@"+fe.curPos, []string{"C19"}, held, "this function accesses "+loc.Base+" of shared objects only with its lock held")
}
