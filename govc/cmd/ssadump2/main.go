package main

import (
	"fmt"
	"os"
	"strings"

	"golang.org/x/tools/go/packages"
	"golang.org/x/tools/go/ssa"
	"golang.org/x/tools/go/ssa/ssautil"
)

func main() {
	cfg := &packages.Config{Mode: packages.LoadAllSyntax, Dir: "/repo", BuildFlags: []string{"-tags=verif"}}
	pkgs, err := packages.Load(cfg, "./engine", "./builder", "./context", "./internal/...")
	if err != nil {
		panic(err)
	}
	prog, _ := ssautil.AllPackages(pkgs, ssa.InstantiateGenerics|ssa.GlobalDebug)
	prog.Build()
	want := os.Args[1:]
	for fn := range ssautil.AllFunctions(prog) {
		name := fn.String()
		for _, w := range want {
			if strings.Contains(name, w) {
				fn.WriteTo(os.Stdout)
				fmt.Println()
			}
		}
	}
}
