package main

// Symbolic execution of one SSA function between cut points, generating
// proof obligations from its contract.

import (
	"fmt"
	"go/ast"
	"go/constant"
	"go/token"
	"go/types"
	"os"
	"sort"
	"strings"

	"golang.org/x/tools/go/ssa"
)

const maxPaths = 6000

func (fe *FE) tagsOf(c *Clause) []string {
	if c != nil && len(c.Tags) > 0 {
		// clause tags narrowed to the properties this function serves (templates carry tags for several)
		var out []string
		for _, t := range c.Tags {
			if hasTag(fe.C.Props, t) || hasTag(fe.C.AlsoProps, t) {
				out = append(out, t)
			}
		}
		if len(out) > 0 {
			return out
		}
	}
	return fe.C.Props
}

// addOb records an obligation with the current path context.
func (fe *FE) addOb(st *State, kind, label string, tags []string, goal, src string) {
	if goal == "true" {
		// still counted: trivially discharged obligations are recorded without a solver call
	}
	if tags == nil {
		tags = fe.C.Props
	}
	name := fe.FnName + ":" + kind
	if label != "" {
		name += ":" + label
	}
	ob := &Obligation{
		Name: name, Func: fe.FnName, Kind: kind, Tags: tags, Src: src, Pos: fe.curPos,
		Path: strings.Join(st.path, " > "),
		Goal: goal,
	}
	// A |- A: the goal is literally one of the path facts (typical for invariants over state the loop does not touch)
	for i := len(st.facts) - 1; i >= 0; i-- {
		if st.facts[i] == goal {
			ob.Result = "unsat"
			ob.Solver = "syntactic"
			fe.Obs = append(fe.Obs, ob)
			return
		}
	}
	ob.Decls = append([]string(nil), st.decls...)
	ob.Facts = append([]string(nil), st.facts...)
	fe.Obs = append(fe.Obs, ob)
}

var blockSmoke = os.Getenv("GOVC_BLOCKSMOKE") != ""

func (fe *FE) smoke(st *State, label string) {
	name := fe.FnName + ":smoke:" + label
	if fe.prefixes[name] {
		return
	}
	fe.prefixes[name] = true
	ob := &Obligation{
		Name: name, Func: fe.FnName, Kind: "smoke", Tags: fe.C.Props, Pos: fe.curPos,
		Path:  strings.Join(st.path, " > "),
		Decls: append([]string(nil), st.decls...),
		Facts: append([]string(nil), st.facts...),
		Goal:  "false", Smoke: true,
	}
	fe.Obs = append(fe.Obs, ob)
}

func (fe *FE) ownCtx(st *State) *Ctx {
	c := &Ctx{fe: fe, st: st, binds: map[string]Val{}, params: map[string]Val{}, own: true, pkg: fe.Fn.Pkg.Pkg, oldGh: st.oldVals}
	for _, p := range fe.Fn.Params {
		if v, ok := st.vals[p]; ok {
			c.params[p.Name()] = v
		}
	}
	for _, p := range fe.Fn.FreeVars {
		if v, ok := st.vals[p]; ok {
			c.params[p.Name()] = fe.cellVal(v, p.Type())
		}
	}
	return c
}

// assumeClause adds the clause (and its well-formedness side conditions) as facts.
func (fe *FE) assumeExpr(st *State, c *Ctx, e *Expr, what string) {
	c.what = what
	c.side = nil
	t := c.boolTerm(c.eval(e))
	for _, s := range c.side {
		st.assume(s)
	}
	st.assume(t)
}

func (fe *FE) assertExpr(st *State, c *Ctx, e *Expr, kind, label string, tags []string, src string) {
	c.what = kind + " " + label
	c.side = nil
	t := c.boolTerm(c.eval(e))
	for _, s := range c.side {
		st.assume(s)
	}
	fe.addOb(st, kind, label, tags, t, src)
	st.assume(t) // proved (or reported): continue under it
}

func clauseLabel(c *Clause, i int) string {
	if c.Name != "" {
		return c.Name
	}
	return fmt.Sprintf("%d@L%d", i, c.Line)
}

// ---------------------------------------------------------------------------

func (fe *FE) computeLoops() {
	fe.loops = map[*ssa.BasicBlock]*loopInfo{}
	for _, b := range fe.Fn.Blocks {
		for _, s := range b.Succs {
			if s.Dominates(b) {
				li := fe.loops[s]
				if li == nil {
					li = &loopInfo{head: s, body: map[*ssa.BasicBlock]bool{s: true}, modHeap: map[string]bool{}, modGh: map[string]bool{}}
					fe.loops[s] = li
				}
				// natural loop of back edge b->s
				var stack []*ssa.BasicBlock
				if !li.body[b] {
					li.body[b] = true
					stack = append(stack, b)
				}
				for len(stack) > 0 {
					x := stack[len(stack)-1]
					stack = stack[:len(stack)-1]
					for _, p := range x.Preds {
						if !li.body[p] {
							li.body[p] = true
							stack = append(stack, p)
						}
					}
				}
			}
		}
	}
	for h := range fe.loops {
		fe.loopOrd = append(fe.loopOrd, h)
	}
	sort.Slice(fe.loopOrd, func(i, j int) bool { return fe.loopOrd[i].Index < fe.loopOrd[j].Index })
	// order loops by source position of the head's first positioned instruction
	pos := func(b *ssa.BasicBlock) token.Pos {
		best := token.NoPos
		for bb := range fe.loops[b].body {
			for _, ins := range bb.Instrs {
				if p := ins.Pos(); p != token.NoPos && (best == token.NoPos || p < best) {
					best = p
				}
			}
		}
		return best
	}
	// loops are numbered in the order the SSA builder created their head blocks (= source order of the loop statements)
	_ = pos
	for i, h := range fe.loopOrd {
		li := fe.loops[h]
		li.ord = i
		if os.Getenv("GOVC_DEBUG") != "" {
			fmt.Fprintf(os.Stderr, "loop %d of %s: head block %d (%s) line %d\n", i, fe.FnName, h.Index, h.Comment, fe.Fn.Prog.Fset.Position(pos(h)).Line)
		}
		for _, c := range fe.C.Loops[i] {
			switch c.Kind {
			case "invariant":
				li.inv = append(li.inv, c)
			case "decreases":
				li.dec = c
			case "exit":
				li.exit = append(li.exit, c)
			default:
				fe.errorf("loop %d: unknown clause kind %s", i, c.Kind)
			}
		}
	}
	for k := range fe.C.Loops {
		if k >= len(fe.loopOrd) {
			fe.addStaticFailure("target-present", fmt.Sprintf("loop%d", k), fmt.Sprintf("contract names loop %d but the function has %d loops", k, len(fe.loopOrd)))
		}
	}
}

func (fe *FE) addStaticFailure(kind, label, detail string) {
	name := fe.FnName + ":" + kind + ":" + label
	fe.Obs = append(fe.Obs, &Obligation{Name: name, Func: fe.FnName, Kind: kind, Tags: fe.C.Props, Goal: "false", Result: "failed", Detail: detail, Src: detail})
}

// Run verifies the function.
func (fe *FE) Run() {
	defer func() {
		if r := recover(); r != nil {
			fe.errorf("internal error: %v", r)
		}
	}()
	fn := fe.Fn
	if len(fn.Blocks) == 0 {
		fe.errorf("function has no body")
		return
	}
	fe.computeLoops()
	st := &State{
		vals: map[ssa.Value]Val{}, heap: map[string]string{}, ghosts: map[string]Val{}, names: map[string]Val{},
		open: map[*ssa.BasicBlock]bool{}, unstable: map[string]bool{},
	}
	fe.globalDecl("cnt!entry", "(declare-const cnt!entry Int)")
	fe.gaxioms = append(fe.gaxioms, "(>= cnt!entry 0)")
	st.cnt = "cnt!entry"
	mk := func(name string, t types.Type) Val {
		v := fe.freshVal(st, name, t)
		return v
	}
	for _, p := range fn.Params {
		st.vals[p] = mk(p.Name(), p.Type())
	}
	for _, p := range fn.FreeVars {
		st.vals[p] = mk(p.Name(), p.Type())
		if v := st.vals[p]; v.Kind == VScalar && v.Sort == SInt {
			st.assume("(> " + v.T + " 0)") // a captured variable's cell always exists
		}
	}
	// lock/waitgroup ghost state exists from the start
	ctx := fe.ownCtx(st)
	// global axioms
	for _, ax := range fe.V.C.Globals {
		ac := &Ctx{fe: fe, st: st, binds: map[string]Val{}, params: map[string]Val{}, pkg: fn.Pkg.Pkg}
		fe.assumeExpr(st, ac, ax.E, "axiom")
		fe.usedAsm[fmt.Sprintf("axiom %s (%s:%d)", ax.Src, shortFile(ax.File), ax.Line)] = true
	}
	for _, en := range fe.C.Entry {
		switch en {
		case "nolocks":
			// meta-argument LB (lock balance): API entry points are entered holding none of gengine's internal locks
			fe.heapTerm(st, "G_held", arraySort([]string{SInt}, SBool))
			st.assume("(= G_held!0 ((as const (Array Int Bool)) false))")
			fe.usedAsm["entry nolocks: API entry point is entered with no internal lock held (meta-argument LB: every function under contract releases what it takes; user code never runs under an internal lock)"] = true
		default:
			fe.errorf("unknown entry assumption %q", en)
		}
	}
	for i, r := range fe.C.Requires {
		fe.assumeExpr(st, ctx, r.E, fmt.Sprintf("requires %d", i))
	}
	for _, a := range fe.C.Assumes {
		fe.assumeExpr(st, ctx, a.E, "assume")
		fe.usedAsm[fmt.Sprintf("assume %s (%s:%d)", a.Src, shortFile(a.File), a.Line)] = true
	}
	for _, g := range fe.C.Ghosts {
		ctx.what = "ghost " + g.Name
		v := ctx.eval(g.Init)
		if g.Type != "" {
			if gt := fe.V.resolveType(g.Type, fn.Pkg.Pkg); gt != nil {
				if v.Sort == "lit" {
					v = ctx.coerceLit(v, fe.S.scalarSort(gt))
				}
				v.GoT = gt
			}
		}
		if v.Sort == "lit" {
			v = ctx.coerceLit(v, SInt)
		}
		st.ghosts[g.Name] = v
	}
	for gi, g := range fe.C.Guards {
		ctx.what = "guard"
		// the guarded thing: a cell (captured variable / pointer), a map or an object reference
		var ref string
		if g[0].Op == "id" {
			if p, ok := ctx.params[g[0].S]; ok && p.Kind == VLoc && len(p.Loc.Idx) > 0 {
				ref = p.Loc.Idx[0]
			}
		}
		if ref == "" {
			v := ctx.eval(g[0])
			switch v.Kind {
			case VScalar:
				ref = v.T
			case VLoc:
				if len(v.Loc.Idx) > 0 {
					ref = v.Loc.Idx[0]
				}
			}
		}
		lv := ctx.eval(g[1])
		lock, ok := fe.asRef(lv)
		if ref == "" || !ok {
			fe.errorf("guard clause %q: cannot resolve", fe.C.GuardSrc[gi])
			continue
		}
		if st.guarded == nil {
			st.guarded = map[string]string{}
		}
		st.guarded[ref] = lock
	}
	for gi, gf := range fe.C.GuardFields {
		i := strings.LastIndex(gf, ".")
		t := fe.V.resolveType(gf[:i], fn.Pkg.Pkg)
		if i < 0 || t == nil {
			fe.errorf("guardfield %q: cannot resolve", gf)
			continue
		}
		ctx.what = "guardfield"
		lv := ctx.eval(fe.C.GuardFieldLocks[gi])
		lock, ok := fe.asRef(lv)
		if !ok {
			fe.errorf("guardfield %q: lock is not a reference", gf)
			continue
		}
		if st.guardedBases == nil {
			st.guardedBases = map[string]string{}
		}
		st.guardedBases[fieldBase(t, gf[i+1:])] = lock
	}
	fe.loopWriteWhole = map[string]bool{}
	for _, it := range fe.C.LoopWritesWhole {
		scratch := st.clone()
		fe.scanning = true
		for _, n := range fe.havocItem(scratch, fe.ownCtx(scratch), it, "loopwrites") {
			fe.loopWriteWhole[n] = true
			fe.loopWriteWhole[stripComp(n)] = true
		}
		fe.scanning = false
	}
	for _, lw := range fe.C.LoopWrites {
		ctx.what = "loopwrites"
		v := ctx.eval(lw)
		switch v.Kind {
		case VScalar:
			fe.loopWriteRefs = append(fe.loopWriteRefs, v.T)
		case VSlice:
			fe.loopWriteRefs = append(fe.loopWriteRefs, v.Arr)
		}
	}
	st.oldVals = map[string]Val{}
	for k, v := range st.ghosts {
		st.oldVals[k] = v
	}
	fe.resolveOwnFrame(st)
	if np := fe.C.NoPanicOwn; np != nil && np.E != nil {
		ctx.what = "nopanic own when"
		fe.npWhen = ctx.boolTerm(ctx.eval(np.E))
	}
	fe.smoke(st, "requires")
	if fe.C.MergeJoins {
		fe.computeRPO()
	}
	fe.runBlock(st, fn.Blocks[0], nil)
	fe.drainJoins()
	fe.checkPanicSafe()
	fe.checkCapturedLoopVars()
}

// checkPanicSafe: after a write to pre-existing state nothing that can panic is executed (so a panic of this function
// leaves pre-existing state untouched).
func (fe *FE) checkPanicSafe() {
	if !fe.C.PanicSafe {
		return
	}
	ob := &Obligation{Name: fe.FnName + ":panicsafe:writes-last", Func: fe.FnName, Kind: "panicsafe", Tags: fe.C.Props, Goal: "true", Result: "unsat", Solver: "structural", Src: "writes to pre-existing state are followed only by stores and the return"}
	seen := map[string]bool{}
	for _, w := range fe.nonFreshWrites {
		if seen[w] {
			continue
		}
		seen[w] = true
		var bi, ii int
		fmt.Sscanf(w, "%d.%d", &bi, &ii)
		b := fe.Fn.Blocks[bi]
		for _, ins := range b.Instrs[ii+1:] {
			switch ins.(type) {
			case *ssa.Store, *ssa.DebugRef, *ssa.RunDefers, *ssa.Return, *ssa.FieldAddr, *ssa.UnOp:
				continue
			default:
				ob.Result = "failed"
				ob.Detail = fmt.Sprintf("instruction %T follows a write to pre-existing state in block %d", ins, bi)
			}
		}
		if _, ok := b.Instrs[len(b.Instrs)-1].(*ssa.Return); !ok {
			ob.Result = "failed"
			ob.Detail = fmt.Sprintf("block %d with a write to pre-existing state does not end in return", bi)
		}
	}
	fe.Obs = append(fe.Obs, ob)
}

func shortFile(f string) string {
	if i := strings.LastIndex(f, "/repo/"); i >= 0 {
		return f[i+6:]
	}
	if i := strings.LastIndex(f, "/verif/"); i >= 0 {
		return f[i+7:]
	}
	return f
}

// freshVal makes an unconstrained value of Go type t (with well-formedness assumptions).
func (fe *FE) freshVal(st *State, hint string, t types.Type) Val {
	if tu, ok := t.(*types.Tuple); ok {
		var es []Val
		for i := 0; i < tu.Len(); i++ {
			es = append(es, fe.freshVal(st, fmt.Sprintf("%s_%d", hint, i), tu.At(i).Type()))
		}
		return Val{Kind: VTuple, Elems: es, GoT: t}
	}
	if s := fe.S.scalarSort(t); s != "" {
		v := scalar(fe.newConst(st, hint, s), s, t)
		fe.assumeClosed(st, v)
		return v
	}
	if isSliceType(t) {
		v := Val{Kind: VSlice, Arr: fe.newConst(st, hint+"_arr", SInt), Off: fe.newConst(st, hint+"_off", SInt),
			Len: fe.newConst(st, hint+"_len", SInt), Cap: fe.newConst(st, hint+"_cap", SInt), GoT: t}
		fe.assumeSliceWF(st, v)
		return v
	}
	fe.errorf("unsupported value type %s for %s", t, hint)
	return Val{Kind: VNone, GoT: t}
}

func (fe *FE) posOf(ins ssa.Instruction) string {
	p := ins.Pos()
	if p == token.NoPos {
		return ""
	}
	pp := fe.Fn.Prog.Fset.Position(p)
	return fmt.Sprintf("%s:%d", shortFile(pp.Filename), pp.Line)
}

func (fe *FE) runBlock(st *State, b, pred *ssa.BasicBlock) {
	if len(fe.errs) > 20 {
		return
	}
	st.curBlock = b
	if blockSmoke && len(st.frames) == 0 && !fe.scanning {
		// diagnostic (GOVC_BLOCKSMOKE=1): up to 4 feasibility probes per basic block; a block whose probes are all
		// vacuous is never really checked
		if fe.blockProbes == nil {
			fe.blockProbes = map[int]int{}
		}
		if fe.blockProbes[b.Index] < 4 {
			fe.blockProbes[b.Index]++
			fe.smoke(st, fmt.Sprintf("block%d.%d", b.Index, fe.blockProbes[b.Index]))
		}
	}
	// leaving a loop (exit edge, break, ...): its exit clauses must hold
	if pred != nil && len(st.frames) == 0 {
		for _, h := range fe.loopOrd {
			li := fe.loops[h]
			isDone := false // b is the loop's done block: the successor of the head outside the body (also the target of break)
			for _, sc := range h.Succs {
				if sc == b && !li.body[sc] {
					isDone = true
				}
			}
			if len(li.exit) > 0 && isDone && st.open[h] && li.body[pred] && !li.body[b] && !st.paniced {
				ctx := fe.ownCtx(st)
				ctx.head = h
				for i, c := range li.exit {
					fe.curPos = fmt.Sprintf("%s:%d", shortFile(c.File), c.Line)
					fe.assertExpr(st, ctx, c.E, "loop-exit", fmt.Sprintf("loop%d.%s", li.ord, clauseLabel(c, i)), fe.tagsOf(c), c.Src)
				}
			}
		}
	}
	// loop head handling
	if li, isHead := fe.loops[b]; isHead {
		if st.open[b] {
			// back edge: invariant preserved, variant decreased
			fe.bindPhis(st, b, pred)
			fe.checkInvariants(st, li, "inv-preserved")
			if li.dec != nil {
				ctx := fe.ownCtx(st)
				ctx.head = b
				ctx.what = "decreases"
				nv := ctx.intTerm(ctx.eval(li.dec.E))
				ov := st.ghosts[fmt.Sprintf("$variant%d", li.ord)]
				fe.addOb(st, "variant-decreases", fmt.Sprintf("loop%d", li.ord), fe.tagsOf(li.dec), and("(< "+nv+" "+ov.T+")", "(>= "+ov.T+" 0)"), li.dec.Src)
			}
			fe.paths++
			return
		}
		// entry from outside
		fe.bindPhis(st, b, pred)
		fe.checkInvariants(st, li, "inv-entry")
		fe.havocLoop(st, li)
		st.open[b] = true
		st.curLoop = b
		ctx := fe.ownCtx(st)
		ctx.head = b
		for i, c := range li.inv {
			fe.assumeExpr(st, ctx, c.E, fmt.Sprintf("loop %d invariant %d", li.ord, i))
		}
		if li.dec != nil {
			ctx.what = "decreases"
			v := ctx.intTerm(ctx.eval(li.dec.E))
			n := fe.newConst(st, "variant", SInt)
			st.assume(eq(n, v))
			st.ghosts[fmt.Sprintf("$variant%d", li.ord)] = scalar(n, SInt, nil)
		}
		fe.smoke(st, fmt.Sprintf("loop%d", li.ord))
		st.path = append(st.path, fmt.Sprintf("loop%d", li.ord))
		fe.execBody(st, b, true)
		return
	}
	fe.bindPhis(st, b, pred)
	if pred != nil && !st.paniced && fe.isJoinBlock(b) {
		fe.park(st, b)
		return
	}
	fe.execBody(st, b, true)
}

func (fe *FE) checkInvariants(st *State, li *loopInfo, kind string) {
	ctx := fe.ownCtx(st)
	ctx.head = li.head
	for i, c := range li.inv {
		fe.curPos = fmt.Sprintf("%s:%d", shortFile(c.File), c.Line)
		fe.assertExpr(st, ctx, c.E, kind, fmt.Sprintf("loop%d.%s", li.ord, clauseLabel(c, i)), fe.tagsOf(c), c.Src)
	}
	if len(li.inv) == 0 && len(fe.C.Loops) > 0 {
		// a loop without invariant gets `true`
	}
}

func (fe *FE) bindPhis(st *State, b, pred *ssa.BasicBlock) {
	if pred == nil {
		return
	}
	idx := -1
	for i, p := range b.Preds {
		if p == pred {
			idx = i
			break
		}
	}
	if idx < 0 {
		return
	}
	var phis []*ssa.Phi
	var vals []Val
	for _, ins := range b.Instrs {
		phi, ok := ins.(*ssa.Phi)
		if !ok {
			break
		}
		phis = append(phis, phi)
		vals = append(vals, fe.valOf(st, phi.Edges[idx]))
	}
	for i, phi := range phis {
		v := vals[i]
		if v.Kind == VScalar && v.Sort == "" {
			v = fe.zeroVal(phi.Type())
		}
		v.GoT = phi.Type()
		st.vals[phi] = v
		if isIdentName(phi.Comment) {
			st.names[phi.Comment] = v
		}
	}
}

// havocLoop forgets everything the loop body may change.
func (fe *FE) havocLoop(st *State, li *loopInfo) {
	fe.loopMods(li)
	for _, ins := range li.head.Instrs {
		phi, ok := ins.(*ssa.Phi)
		if !ok {
			break
		}
		st.vals[phi] = fe.freshVal(st, "phi_"+phi.Comment, phi.Type())
		if isIdentName(phi.Comment) {
			st.names[phi.Comment] = st.vals[phi]
		}
	}
	if li.modAll {
		for name := range st.heap {
			fe.havocHeap(st, name)
		}
		fe.errorf("loop %d contains a call without a usable frame (modifies everything)", li.ord)
	}
	names := sortedKeys(li.modHeap)
	for _, name := range names {
		before, had := st.heap[name]
		fe.havocHeap(st, name)
		if rowPreservable(name) {
			after := st.heap[name]
			if !had || before == "?" {
				before = name + "!0"
			}
			if after != "?" && after != before && !fe.loopWriteWhole[name] {
				excl := ""
				for _, w := range fe.loopWriteRefs {
					excl += " (not (= a " + w + "))"
				}
				st.assume(fmt.Sprintf("(forall ((a Int)) (! (=> (and (<= a cnt!entry)%s) (= (select %s a) (select %s a))) :pattern ((select %s a))))", excl, after, before, after))
			}
		}
	}
	for _, g := range sortedKeys(li.modGh) {
		if old, ok := st.ghosts[g]; ok {
			st.ghosts[g] = fe.freshLike(st, "gh_"+g, old)
		}
	}
	// `visited` is an alias of the loop's own iterator's visited set
	for _, g := range sortedKeys(li.modGh) {
		if strings.HasPrefix(g, "$visited_") {
			if v, ok := st.ghosts[g]; ok {
				st.ghosts["visited"] = v
			}
		}
	}
	// allocation counter may have grown
	fe.bumpCnt(st)
}

func (fe *FE) freshLike(st *State, hint string, v Val) Val {
	switch v.Kind {
	case VScalar:
		n := scalar(fe.newConst(st, hint, v.Sort), v.Sort, v.GoT)
		return n
	case VSlice:
		return fe.freshVal(st, hint, v.GoT)
	}
	return v
}

func (fe *FE) execBody(st *State, b *ssa.BasicBlock, fromStart bool) {
	fe.execFrom(st, b, 0)
}

func (fe *FE) execFrom(st *State, b *ssa.BasicBlock, from int) {
	for i := from; i < len(b.Instrs); i++ {
		ins := b.Instrs[i]
		if _, ok := ins.(*ssa.Phi); ok {
			continue
		}
		if p := fe.posOf(ins); p != "" {
			fe.curPos = p
		}
		switch x := ins.(type) {
		case *ssa.If:
			cond := fe.valOf(st, x.Cond)
			fe.branch(st, b, cond.T)
			return
		case *ssa.Jump:
			fe.runBlock(st, b.Succs[0], b)
			return
		case *ssa.Return:
			var rs []Val
			for _, r := range x.Results {
				rs = append(rs, fe.valOf(st, r))
			}
			if n := len(st.frames); n > 0 {
				// return from an inlined callee: bind the call's result and continue the caller after the call
				fr := st.frames[n-1]
				st.frames = st.frames[:n-1]
				if fr.res != nil {
					if len(rs) == 1 {
						v := rs[0]
						v.GoT = fr.res.Type()
						st.vals[fr.res] = v
					} else {
						st.vals[fr.res] = Val{Kind: VTuple, Elems: rs, GoT: fr.res.Type()}
					}
				}
				st.names = fr.names
				st.path = append(st.path, "ret:"+fr.fn.Name())
				fe.execFrom(st, fr.retTo, fr.retIdx+1)
				return
			}
			fe.doReturn(st, rs, false)
			return
		case *ssa.Panic:
			fe.doPanic(st, "explicit panic", "panic", fmt.Sprintf("b%d.%d", b.Index, i))
			return
		default:
			fe.curIns = [2]int{b.Index, i}
			fe.curB, fe.curI = b, i
			cont := fe.execInstr(st, ins, b, i)
			// states forked inside the instruction (e.g. append in place / realloc)
			forks := fe.pendingFork
			fe.pendingFork = nil
			for _, f := range forks {
				fe.execFrom(f, b, i+1)
			}
			if !cont {
				return
			}
		}
	}
}

func (fe *FE) branch(st *State, b *ssa.BasicBlock, cond string) {
	if fe.paths > maxPaths {
		fe.addStaticFailure("cap", "paths", fmt.Sprintf("more than %d paths", maxPaths))
		return
	}
	if cond == "true" {
		fe.runBlock(st, b.Succs[0], b)
		return
	}
	if cond == "false" {
		fe.runBlock(st, b.Succs[1], b)
		return
	}
	t := st.clone()
	t.assume(cond)
	t.path = append(t.path, fmt.Sprintf("b%d:T", b.Index))
	fe.runBlock(t, b.Succs[0], b)
	st.assume(not(cond))
	st.path = append(st.path, fmt.Sprintf("b%d:F", b.Index))
	fe.runBlock(st, b.Succs[1], b)
}

// valOf returns the symbolic value of an SSA value.
func (fe *FE) valOf(st *State, v ssa.Value) Val {
	switch x := v.(type) {
	case *ssa.Const:
		return fe.constVal(x)
	case *ssa.Global:
		return Val{Kind: VLoc, Loc: &Loc{Base: "G_" + x.Pkg.Pkg.Name() + "_" + x.Name(), T: derefType(x.Type())}, GoT: x.Type()}
	case *ssa.Function:
		return Val{Kind: VFunc, Fn: x, GoT: x.Type()}
	case *ssa.Builtin:
		return Val{Kind: VNone}
	}
	if r, ok := st.vals[v]; ok {
		return r
	}
	fe.errorf("value %s (%T) used before definition", v.Name(), v)
	return fe.zeroVal(v.Type())
}

func (fe *FE) constVal(c *ssa.Const) Val {
	t := c.Type()
	if c.Value == nil {
		return fe.zeroVal(t)
	}
	sortS := fe.S.scalarSort(t)
	switch c.Value.Kind() {
	case constant.Bool:
		if constant.BoolVal(c.Value) {
			return scalar("true", SBool, t)
		}
		return scalar("false", SBool, t)
	case constant.String:
		return scalar(fe.strLit(constant.StringVal(c.Value)), SStr, t)
	case constant.Int:
		if isFloatSort(sortS) {
			f, _ := constant.Float64Val(c.Value)
			return scalar(fpLit(f, sortS), sortS, t)
		}
		if isBVSort(sortS) {
			var w int
			fmt.Sscanf(sortS, "(_ BitVec %d)", &w)
			if i, ok := constant.Int64Val(c.Value); ok {
				return scalar(bvLit(uint64(i), w), sortS, t)
			}
			u, _ := constant.Uint64Val(c.Value)
			return scalar(bvLit(u, w), sortS, t)
		}
		if i, ok := constant.Int64Val(c.Value); ok {
			return scalar(intLit(i), SInt, t)
		}
		return scalar(c.Value.ExactString(), SInt, t)
	case constant.Float:
		f, _ := constant.Float64Val(c.Value)
		if sortS == "" {
			sortS = SF64
		}
		return scalar(fpLit(f, sortS), sortS, t)
	}
	fe.errorf("unsupported constant %s", c)
	return fe.zeroVal(t)
}

func fpLit(f float64, sort string) string {
	eb, sb := 11, 53
	if sort == SF32 {
		eb, sb = 8, 24
	}
	if f == 0 {
		return fmt.Sprintf("(_ +zero %d %d)", eb, sb)
	}
	// exact via rational decimal expansion is awkward; use to_fp from a decimal with enough digits
	s := fmt.Sprintf("%.40f", f)
	neg := false
	if strings.HasPrefix(s, "-") {
		neg = true
		s = s[1:]
	}
	t := fmt.Sprintf("((_ to_fp %d %d) RNE %s)", eb, sb, s)
	if neg {
		t = "(fp.neg " + t + ")"
	}
	return t
}

// execInstr executes a non-terminator instruction. Returns false if the path ended.
func (fe *FE) execInstr(st *State, ins ssa.Instruction, b *ssa.BasicBlock, idx int) bool {
	site := fmt.Sprintf("b%d.%d", b.Index, idx)
	if n := len(st.frames); n > 0 {
		site = "in." + st.frames[n-1].fn.Name() + "." + site
	}
	switch x := ins.(type) {
	case *ssa.DebugRef:
		if id, ok := x.Expr.(*ast.Ident); ok {
			if tv, isVar := x.Object().(*types.Var); isVar && !isPkgLevel(tv) {
				v := fe.valOf(st, x.X)
				if !x.IsAddr && fe.isAddrVar(x.Object()) {
					// the variable lives in a cell (captured / address taken): its name keeps denoting the cell
					return true
				}
				if x.IsAddr {
					if v.Kind == VLoc {
						st.names[id.Name] = v
					} else if v.Kind == VScalar {
						if et := derefType(x.X.Type()); et != nil && isStructType(et) {
							st.names[id.Name] = v
						} else {
							st.names[id.Name] = Val{Kind: VLoc, Loc: fe.asLoc(v, x.X.Type()), GoT: x.X.Type()}
						}
					}
				} else {
					st.names[id.Name] = v
				}
			}
		}
		return true
	case *ssa.Alloc:
		fe.execAlloc(st, x)
		return true
	case *ssa.BinOp:
		st.vals[x] = fe.execBinOp(st, x, site)
		return !st.paniced
	case *ssa.UnOp:
		return fe.execUnOp(st, x, site)
	case *ssa.FieldAddr:
		base := fe.valOf(st, x.X)
		ref, ok := fe.asRef(base)
		if !ok {
			fe.errorf("FieldAddr on unsupported base %v", base)
			return false
		}
		if !fe.nilCheck(st, ref, site, "nil-deref") {
			return false
		}
		st.vals[x] = fe.fieldAddr(st, ref, derefType(x.X.Type()), x.Field)
		return true
	case *ssa.Field:
		// field of a struct value: only tuples-as-structs are not supported
		fe.errorf("unsupported Field on struct value %s", x.X.Type())
		return false
	case *ssa.IndexAddr:
		return fe.execIndexAddr(st, x, site)
	case *ssa.Index:
		fe.errorf("unsupported Index on array value")
		return false
	case *ssa.Store:
		addr := fe.valOf(st, x.Addr)
		v := fe.valOf(st, x.Val)
		loc := fe.asLoc(addr, x.Addr.Type())
		fe.checkStore(st, loc, site)
		if v.Kind == VLoc || v.Kind == VClosure || v.Kind == VFunc {
			r, ok := fe.asRef(v)
			if !ok {
				if v.Kind == VClosure || v.Kind == VFunc {
					r = fe.newConst(st, "fnval", SInt)
				} else {
					fe.errorf("cannot store pointer value %v", v)
					return false
				}
			}
			v = scalar(r, SInt, x.Val.Type())
		}
		fe.store(st, loc, v)
		return true
	case *ssa.Extract:
		t := fe.valOf(st, x.Tuple)
		if t.Kind != VTuple || x.Index >= len(t.Elems) {
			fe.errorf("extract from non-tuple %v", t)
			return false
		}
		st.vals[x] = t.Elems[x.Index]
		return true
	case *ssa.MakeInterface:
		st.vals[x] = fe.makeInterface(st, fe.valOf(st, x.X), x.X.Type(), x.Type())
		return true
	case *ssa.ChangeInterface:
		v := fe.valOf(st, x.X)
		v.GoT = x.Type()
		st.vals[x] = v
		return true
	case *ssa.ChangeType:
		v := fe.valOf(st, x.X)
		v.GoT = x.Type()
		st.vals[x] = v
		return true
	case *ssa.Convert:
		st.vals[x] = fe.execConvert(st, x)
		return true
	case *ssa.MakeSlice:
		n := fe.intOf(fe.valOf(st, x.Len))
		cp := fe.intOf(fe.valOf(st, x.Cap))
		if fe.nopanic {
			fe.addOb(st, "safe", "makeslice@"+site, fe.tagsOf(fe.C.NoPanic), and("(>= "+n+" 0)", "(<= "+n+" "+cp+")"), "make([]T, n, c) needs 0 <= n <= c")
		}
		st.assume(and("(>= "+n+" 0)", "(<= "+n+" "+cp+")"))
		et := x.Type().Underlying().(*types.Slice).Elem()
		arr := fe.freshRef(st)
		fe.zeroRow(st, elemBase(et), et, arr)
		st.vals[x] = Val{Kind: VSlice, Arr: arr, Off: "0", Len: n, Cap: cp, GoT: x.Type()}
		return true
	case *ssa.MakeMap:
		mt := x.Type().Underlying().(*types.Map)
		ref := fe.freshRef(st)
		fe.initMap(st, mt, ref)
		st.vals[x] = scalar(ref, SInt, x.Type())
		return true
	case *ssa.MakeClosure:
		fnv := x.Fn.(*ssa.Function)
		var bs []Val
		for _, bv := range x.Bindings {
			bs = append(bs, fe.valOf(st, bv))
		}
		st.vals[x] = Val{Kind: VClosure, Fn: fnv, Binds: bs, GoT: x.Type()}
		return true
	case *ssa.Slice:
		return fe.execSlice(st, x, site)
	case *ssa.Lookup:
		return fe.execLookup(st, x, site)
	case *ssa.MapUpdate:
		return fe.execMapUpdate(st, x, site)
	case *ssa.TypeAssert:
		return fe.execTypeAssert(st, x, site)
	case *ssa.Range:
		return fe.execRange(st, x)
	case *ssa.Next:
		return fe.execNext(st, x, b)
	case *ssa.Call:
		return fe.execCall(st, x, x.Common(), x, site, "call")
	case *ssa.Go:
		return fe.execCall(st, x, x.Common(), nil, site, "go")
	case *ssa.Defer:
		return fe.execDefer(st, x, site)
	case *ssa.RunDefers:
		return fe.runDefers(st, site)
	case *ssa.Phi:
		return true
	}
	fe.errorf("unsupported instruction %T: %s", ins, ins)
	return false
}

func (fe *FE) intOf(v Val) string {
	if v.Kind != VScalar {
		fe.errorf("expected integer scalar, got %v", v)
		return "0"
	}
	if isBVSort(v.Sort) {
		if isSignedT(v.GoT) {
			return fe.bv2intSigned(v.T, v.Sort)
		}
		return "(bv2nat " + v.T + ")"
	}
	return v.T
}

// nilCheck: dereference of ref. In nopanic functions an obligation; otherwise the
// non-nil case is assumed (a panic leaves the contract's normal-exit scope).
func (fe *FE) nilCheck(st *State, ref, site, label string) bool {
	goal := "(not (= " + ref + " 0))"
	if strings.HasPrefix(ref, "(+ cnt") || strings.HasPrefix(ref, "(sub_") {
		return true
	}
	if st.nonnil == nil {
		st.nonnil = map[string]bool{}
	}
	if st.nonnil[ref] {
		return true // already dereferenced on this path
	}
	st.nonnil[ref] = true
	return fe.safety(st, goal, label+"@"+site, "nil dereference")
}

// safety handles a potentially panicking instruction with non-panic condition goal.
func (fe *FE) safety(st *State, goal, label, what string) bool {
	if goal == "true" {
		return true
	}
	if fe.nopanic && !fe.structuralRecover() {
		g := goal
		if fe.npWhen != "" {
			g = implies(fe.npWhen, goal)
		}
		fe.addOb(st, "safe", label, fe.tagsOf(fe.C.NoPanic), g, what)
		st.assume(goal)
		return true
	}
	if fe.hasExceptional() || fe.structuralRecover() {
		// explore the panicking branch: deferred calls run, a recovering defer resumes at the recover block
		t := st.clone()
		t.assume(not(goal))
		t.path = append(t.path, "panic:"+label)
		fe.doPanic(t, what, "", "")
	}
	st.assume(goal)
	return true
}

func (fe *FE) hasExceptional() bool { return len(fe.C.EnsuresA) > 0 }

func (fe *FE) execAlloc(st *State, x *ssa.Alloc) {
	et := derefType(x.Type())
	ref := fe.freshRef(st)
	switch {
	case isStructType(et):
		fe.zeroStruct(st, et, ref)
		st.vals[x] = scalar(ref, SInt, x.Type())
	case isArrayType(et):
		at := et.Underlying().(*types.Array)
		fe.zeroRow(st, elemBase(at.Elem()), at.Elem(), ref)
		st.vals[x] = scalar(ref, SInt, x.Type())
	default:
		loc := &Loc{Base: cellBase(et), Idx: []string{ref}, T: et}
		if fe.components(et) != nil {
			fe.store(st, loc, fe.zeroVal(et))
		}
		st.vals[x] = Val{Kind: VLoc, Loc: loc, GoT: x.Type()}
	}
	if isIdentName(x.Comment) {
		if v := st.vals[x]; v.Kind == VLoc || v.Kind == VScalar {
			st.names[x.Comment] = v
		}
	}
}

func (fe *FE) zeroStruct(st *State, t types.Type, ref string) {
	saved := fe.initializing
	fe.initializing = true
	defer func() { fe.initializing = saved }()
	su := t.Underlying().(*types.Struct)
	for i := 0; i < su.NumFields(); i++ {
		f := su.Field(i)
		if isStructType(f.Type()) {
			sub := fe.fieldAddr(st, ref, t, i)
			fe.zeroStruct(st, f.Type(), sub.T)
			continue
		}
		if fe.components(f.Type()) == nil {
			continue
		}
		fe.store(st, &Loc{Base: fieldBase(t, f.Name()), Idx: []string{ref}, T: f.Type()}, fe.zeroVal(f.Type()))
	}
	if isNamed(t, "sync", "Mutex") || isNamed(t, "sync", "RWMutex") {
		// a new mutex is unlocked (no store: the lock-balance check compares the lockset with the one at entry)
		arr := fe.heapTerm(st, "G_held", arraySort([]string{SInt}, SBool))
		st.assume("(not (select " + arr + " " + ref + "))")
		st.assume("(not (select G_held!0 " + ref + "))")
	}
	if n, ok := t.(*types.Named); ok && n.Obj().Pkg() != nil {
		if ga, ok := fe.V.C.GhostAttrs[n.Obj().Pkg().Path()+"."+n.Obj().Name()]; ok {
			fe.ghostArrSet(st, "G_"+ga[0], ref, ga[1], SInt)
		}
	}
	if isNamed(t, "sync", "WaitGroup") {
		for _, g := range []string{"added", "forked", "waited"} {
			name := "G_wg_" + g
			arr := fe.heapTerm(st, name, arraySort([]string{SInt}, SInt))
			n := fe.newConst(st, name, arraySort([]string{SInt}, SInt))
			st.assume(eq(n, "(store "+arr+" "+ref+" 0)"))
			st.heap[name] = n
		}
	}
}

// zeroRow sets the element row of a fresh array object to zero values.
func (fe *FE) zeroRow(st *State, base string, et types.Type, arr string) {
	for _, c := range fe.components(et) {
		name := base + c.suffix
		sortA := arraySort([]string{SInt, SInt}, c.sort)
		h := fe.heapTerm(st, name, sortA)
		n := fe.newConst(st, name, sortA)
		zrow := "((as const (Array Int " + c.sort + ")) " + fe.zeroTerm(c.sort) + ")"
		if c.sort == SStr || c.sort == SRV {
			// cvc5 accepts only values in constant arrays
			zrow = fe.newConst(st, "zrow", "(Array Int "+c.sort+")")
			st.assume(fmt.Sprintf("(forall ((i Int)) (! (= (select %s i) %s) :pattern ((select %s i))))", zrow, fe.zeroTerm(c.sort), zrow))
		}
		st.assume(eq(n, "(store "+h+" "+arr+" "+zrow+")"))
		st.heap[name] = n
	}
}

func (fe *FE) initMap(st *State, mt *types.Map, ref string) {
	db, _, lb := mapBases(mt)
	ks := fe.S.scalarSort(mt.Key())
	sortD := arraySort([]string{SInt, ks}, SBool)
	h := fe.heapTerm(st, db, sortD)
	n := fe.newConst(st, db, sortD)
	st.assume(eq(n, "(store "+h+" "+ref+" ((as const (Array "+ks+" Bool)) false))"))
	st.heap[db] = n
	sortL := arraySort([]string{SInt}, SInt)
	hl := fe.heapTerm(st, lb, sortL)
	nl := fe.newConst(st, lb, sortL)
	st.assume(eq(nl, "(store "+hl+" "+ref+" 0)"))
	st.heap[lb] = nl
}

func (fe *FE) checkStore(st *State, loc *Loc, site string) {
	// hook for immutability / lock discipline obligations (see discipline.go)
	fe.disciplineStore(st, loc, site)
}

func (fe *FE) execUnOp(st *State, x *ssa.UnOp, site string) bool {
	v := fe.valOf(st, x.X)
	switch x.Op {
	case token.MUL: // load
		if v.Kind == VScalar {
			if !fe.nilCheck(st, v.T, site, "nil-deref") {
				return false
			}
		}
		loc := fe.asLoc(v, x.X.Type())
		if isStructType(loc.T) {
			// loading a whole struct value: only opaque pass-through of sync objects is meaningless; unsupported
			fe.errorf("unsupported load of struct value %s", loc.T)
			return false
		}
		fe.disciplineLoad(st, loc, site)
		r := fe.load(st, loc)
		r.GoT = x.Type()
		st.vals[x] = r
		return true
	case token.NOT:
		st.vals[x] = scalar(not(v.T), SBool, x.Type())
		return true
	case token.SUB:
		if isBVSort(v.Sort) {
			st.vals[x] = scalar("(bvneg "+v.T+")", v.Sort, x.Type())
		} else if isFloatSort(v.Sort) {
			st.vals[x] = scalar("(fp.neg "+v.T+")", v.Sort, x.Type())
		} else {
			st.vals[x] = scalar("(- "+v.T+")", SInt, x.Type())
			fe.rangeOb(st, st.vals[x], site)
		}
		return true
	case token.XOR:
		if isBVSort(v.Sort) {
			st.vals[x] = scalar("(bvnot "+v.T+")", v.Sort, x.Type())
			return true
		}
	}
	fe.errorf("unsupported unary op %s", x.Op)
	return false
}

// rangeOb: in `arith int` mode machine arithmetic must stay in range.
func (fe *FE) rangeOb(st *State, v Val, site string) {
	if fe.S.BV {
		return
	}
	if fe.C.Arith == "int unchecked" {
		fe.usedAsm["machine integer arithmetic of "+fe.FnName+" is treated as mathematical without range obligations (arith int unchecked)"] = true
		return
	}
	r := intRange(v.GoT)
	if r == "" {
		return
	}
	fe.addOb(st, "arith-range", site, nil, strings.ReplaceAll(r, "$", v.T), "machine integer arithmetic stays within the type's range (integers are modelled as mathematical)")
}

func (fe *FE) execBinOp(st *State, x *ssa.BinOp, site string) Val {
	a := fe.valOf(st, x.X)
	b := fe.valOf(st, x.Y)
	t := x.Type()
	boolT := types.Typ[types.Bool]
	// comparisons on composite values
	if x.Op == token.EQL || x.Op == token.NEQ {
		c := &Ctx{fe: fe, st: st}
		var r string
		if a.Kind == VLoc || b.Kind == VLoc {
			ra, ok1 := fe.asRef(a)
			rb, ok2 := fe.asRef(b)
			if !ok1 || !ok2 {
				fe.errorf("unsupported pointer comparison")
				return scalar("false", SBool, boolT)
			}
			r = eq(ra, rb)
		} else {
			r = c.eqVals(a, b)
		}
		if x.Op == token.NEQ {
			r = not(r)
		}
		return scalar(r, SBool, boolT)
	}
	if a.Kind != VScalar || b.Kind != VScalar {
		fe.errorf("binary op %s on non-scalars", x.Op)
		return fe.zeroVal(t)
	}
	switch {
	case a.Sort == SBool:
		switch x.Op {
		case token.AND, token.LAND:
			return scalar(and(a.T, b.T), SBool, t)
		case token.OR, token.LOR:
			return scalar(or(a.T, b.T), SBool, t)
		}
	case a.Sort == SInt && b.Sort == SInt:
		switch x.Op {
		case token.ADD, token.SUB, token.MUL:
			op := map[token.Token]string{token.ADD: "+", token.SUB: "-", token.MUL: "*"}[x.Op]
			r := scalar("("+op+" "+a.T+" "+b.T+")", SInt, t)
			fe.rangeOb(st, r, site)
			return r
		case token.QUO, token.REM:
			fe.safety(st, "(not (= "+b.T+" 0))", "div-zero@"+site, "integer division by zero")
			if x.Op == token.QUO {
				return scalar("(godiv "+a.T+" "+b.T+")", SInt, t)
			}
			return scalar("(gomod "+a.T+" "+b.T+")", SInt, t)
		case token.LSS:
			return scalar("(< "+a.T+" "+b.T+")", SBool, boolT)
		case token.LEQ:
			return scalar("(<= "+a.T+" "+b.T+")", SBool, boolT)
		case token.GTR:
			return scalar("(> "+a.T+" "+b.T+")", SBool, boolT)
		case token.GEQ:
			return scalar("(>= "+a.T+" "+b.T+")", SBool, boolT)
		}
	case isBVSort(a.Sort) && a.Sort == b.Sort:
		signed := isSignedT(x.X.Type())
		pick := func(s, u string) string {
			if signed {
				return s
			}
			return u
		}
		switch x.Op {
		case token.ADD:
			return scalar("(bvadd "+a.T+" "+b.T+")", a.Sort, t)
		case token.SUB:
			return scalar("(bvsub "+a.T+" "+b.T+")", a.Sort, t)
		case token.MUL:
			return scalar("(bvmul "+a.T+" "+b.T+")", a.Sort, t)
		case token.QUO, token.REM:
			var w int
			fmt.Sscanf(a.Sort, "(_ BitVec %d)", &w)
			fe.safety(st, "(not (= "+b.T+" "+bvLit(0, w)+"))", "div-zero@"+site, "integer division by zero")
			if x.Op == token.QUO {
				return scalar("("+pick("bvsdiv", "bvudiv")+" "+a.T+" "+b.T+")", a.Sort, t)
			}
			return scalar("("+pick("bvsrem", "bvurem")+" "+a.T+" "+b.T+")", a.Sort, t)
		case token.AND:
			return scalar("(bvand "+a.T+" "+b.T+")", a.Sort, t)
		case token.OR:
			return scalar("(bvor "+a.T+" "+b.T+")", a.Sort, t)
		case token.XOR:
			return scalar("(bvxor "+a.T+" "+b.T+")", a.Sort, t)
		case token.LSS:
			return scalar("("+pick("bvslt", "bvult")+" "+a.T+" "+b.T+")", SBool, boolT)
		case token.LEQ:
			return scalar("("+pick("bvsle", "bvule")+" "+a.T+" "+b.T+")", SBool, boolT)
		case token.GTR:
			return scalar("("+pick("bvsgt", "bvugt")+" "+a.T+" "+b.T+")", SBool, boolT)
		case token.GEQ:
			return scalar("("+pick("bvsge", "bvuge")+" "+a.T+" "+b.T+")", SBool, boolT)
		}
	case isFloatSort(a.Sort) && a.Sort == b.Sort:
		switch x.Op {
		case token.ADD:
			return scalar("(fp.add RNE "+a.T+" "+b.T+")", a.Sort, t)
		case token.SUB:
			return scalar("(fp.sub RNE "+a.T+" "+b.T+")", a.Sort, t)
		case token.MUL:
			return scalar("(fp.mul RNE "+a.T+" "+b.T+")", a.Sort, t)
		case token.QUO:
			return scalar("(fp.div RNE "+a.T+" "+b.T+")", a.Sort, t)
		case token.LSS:
			return scalar("(fp.lt "+a.T+" "+b.T+")", SBool, boolT)
		case token.LEQ:
			return scalar("(fp.leq "+a.T+" "+b.T+")", SBool, boolT)
		case token.GTR:
			return scalar("(fp.gt "+a.T+" "+b.T+")", SBool, boolT)
		case token.GEQ:
			return scalar("(fp.geq "+a.T+" "+b.T+")", SBool, boolT)
		}
	case a.Sort == SStr && b.Sort == SStr:
		switch x.Op {
		case token.ADD:
			return scalar("(strcat "+a.T+" "+b.T+")", SStr, t)
		case token.LSS:
			return scalar("(strlt "+a.T+" "+b.T+")", SBool, boolT)
		case token.GTR:
			return scalar("(strlt "+b.T+" "+a.T+")", SBool, boolT)
		case token.LEQ:
			return scalar("(not (strlt "+b.T+" "+a.T+"))", SBool, boolT)
		case token.GEQ:
			return scalar("(not (strlt "+a.T+" "+b.T+"))", SBool, boolT)
		}
	}
	fe.errorf("unsupported binary op %s on %s/%s", x.Op, a.Sort, b.Sort)
	return fe.zeroVal(t)
}

func (fe *FE) execIndexAddr(st *State, x *ssa.IndexAddr, site string) bool {
	base := fe.valOf(st, x.X)
	i := fe.intOf(fe.valOf(st, x.Index))
	switch {
	case base.Kind == VSlice:
		et := x.X.Type().Underlying().(*types.Slice).Elem()
		fe.safety(st, and("(<= 0 "+i+")", "(< "+i+" "+base.Len+")"), "index@"+site, "index out of range")
		st.vals[x] = Val{Kind: VLoc, Loc: &Loc{Base: elemBase(et), Idx: []string{base.Arr, "(+ " + base.Off + " " + i + ")"}, T: et}, GoT: x.Type()}
		return true
	case base.Kind == VScalar:
		pt := derefType(x.X.Type())
		if pt != nil {
			if at, ok := pt.Underlying().(*types.Array); ok {
				fe.safety(st, and("(<= 0 "+i+")", fmt.Sprintf("(< %s %d)", i, at.Len())), "index@"+site, "index out of range")
				st.vals[x] = Val{Kind: VLoc, Loc: &Loc{Base: elemBase(at.Elem()), Idx: []string{base.T, i}, T: at.Elem()}, GoT: x.Type()}
				return true
			}
		}
	}
	fe.errorf("unsupported IndexAddr base %v (%s)", base, x.X.Type())
	return false
}

func (fe *FE) execSlice(st *State, x *ssa.Slice, site string) bool {
	base := fe.valOf(st, x.X)
	var lo, hi, mx string
	if x.Low != nil {
		lo = fe.intOf(fe.valOf(st, x.Low))
	}
	if x.High != nil {
		hi = fe.intOf(fe.valOf(st, x.High))
	}
	if x.Max != nil {
		mx = fe.intOf(fe.valOf(st, x.Max))
	}
	switch {
	case base.Kind == VSlice:
		if lo == "" {
			lo = "0"
		}
		if hi == "" {
			hi = base.Len
		}
		capT := base.Cap
		if mx != "" {
			capT = mx
		}
		goal := and("(<= 0 "+lo+")", "(<= "+lo+" "+hi+")", "(<= "+hi+" "+capT+")")
		if mx != "" {
			goal = and(goal, "(<= "+mx+" "+base.Cap+")")
		}
		fe.safety(st, goal, "slice@"+site, "slice bounds out of range")
		st.vals[x] = Val{Kind: VSlice, Arr: base.Arr, Off: "(+ " + base.Off + " " + lo + ")", Len: "(- " + hi + " " + lo + ")", Cap: "(- " + capT + " " + lo + ")", GoT: x.Type()}
		return true
	case base.Kind == VScalar:
		pt := derefType(x.X.Type())
		if pt != nil {
			if at, ok := pt.Underlying().(*types.Array); ok {
				n := fmt.Sprintf("%d", at.Len())
				if lo == "" {
					lo = "0"
				}
				if hi == "" {
					hi = n
				}
				fe.safety(st, and("(<= 0 "+lo+")", "(<= "+lo+" "+hi+")", "(<= "+hi+" "+n+")"), "slice@"+site, "slice bounds out of range")
				st.vals[x] = Val{Kind: VSlice, Arr: base.T, Off: lo, Len: "(- " + hi + " " + lo + ")", Cap: "(- " + n + " " + lo + ")", GoT: x.Type()}
				return true
			}
		}
	}
	fe.errorf("unsupported Slice base %v (%s)", base, x.X.Type())
	return false
}

func (fe *FE) makeInterface(st *State, v Val, from, to types.Type) Val {
	// boxing: an injective constructor per concrete type
	tk := typeKey(from)
	var ref string
	switch v.Kind {
	case VScalar:
		fn := "box_" + tk
		fe.globalDecl(fn, fmt.Sprintf("(declare-fun %s (%s) Int)", fn, v.Sort))
		un := "unbox_" + tk
		fe.globalDecl(un, fmt.Sprintf("(declare-fun %s (Int) %s)", un, v.Sort))
		ref = "(" + fn + " " + v.T + ")"
		st.assume(eq("("+un+" "+ref+")", v.T))
		if v.Sort == SInt && isPointerLike(from) {
			// a nil pointer boxed in an interface is a non-nil interface
		}
	case VSlice:
		ref = fe.newConst(st, "boxslice", SInt)
		for _, cm := range []struct{ n, t string }{{"arr", v.Arr}, {"off", v.Off}, {"len", v.Len}, {"cap", v.Cap}} {
			un := "unbox_" + tk + "_" + cm.n
			fe.globalDecl(un, fmt.Sprintf("(declare-fun %s (Int) Int)", un))
			st.assume(eq("("+un+" "+ref+")", cm.t))
		}
	default:
		ref = fe.newConst(st, "box", SInt)
	}
	tid := fe.V.typeID(from)
	st.assume(and("(> "+ref+" 0)", eq("(dyn_type "+ref+")", fmt.Sprintf("%d", tid))))
	// payload observers used by the reflect model (prelude.smt2: ikind/ibits/ifloat/istr/ibool)
	if k := reflectKindOf(from); k > 0 {
		st.assume(eq("(ikind "+ref+")", fmt.Sprintf("%d", k)))
	}
	if v.Kind == VScalar {
		switch {
		case isBVSort(v.Sort):
			var w int
			fmt.Sscanf(v.Sort, "(_ BitVec %d)", &w)
			t := v.T
			if w < 64 {
				ext := "zero_extend"
				if isSignedT(from) {
					ext = "sign_extend"
				}
				t = fmt.Sprintf("((_ %s %d) %s)", ext, 64-w, v.T)
			}
			st.assume(eq("(ibits "+ref+")", t))
		case v.Sort == SInt && reflectKindOf(from) >= 2 && reflectKindOf(from) <= 12:
			st.assume(eq("(iint "+ref+")", v.T))
		case v.Sort == SF64:
			st.assume(eq("(ifloat "+ref+")", v.T))
		case v.Sort == SF32:
			st.assume(eq("(ifloat "+ref+")", "((_ to_fp 11 53) RNE "+v.T+")"))
		case v.Sort == SStr:
			st.assume(eq("(istr "+ref+")", v.T))
		case v.Sort == SBool:
			st.assume(eq("(ibool "+ref+")", v.T))
		}
	}
	return scalar(ref, SInt, to)
}

// reflectKindOf: the reflect.Kind of a static Go type (0 if it has none, e.g. an interface)
func reflectKindOf(t types.Type) int {
	switch u := t.Underlying().(type) {
	case *types.Basic:
		switch u.Kind() {
		case types.Bool, types.UntypedBool:
			return 1
		case types.Int, types.UntypedInt:
			return 2
		case types.Int8:
			return 3
		case types.Int16:
			return 4
		case types.Int32, types.UntypedRune:
			return 5
		case types.Int64:
			return 6
		case types.Uint:
			return 7
		case types.Uint8:
			return 8
		case types.Uint16:
			return 9
		case types.Uint32:
			return 10
		case types.Uint64:
			return 11
		case types.Uintptr:
			return 12
		case types.Float32:
			return 13
		case types.Float64, types.UntypedFloat:
			return 14
		case types.Complex64:
			return 15
		case types.Complex128:
			return 16
		case types.String, types.UntypedString:
			return 24
		case types.UnsafePointer:
			return 26
		}
	case *types.Array:
		return 17
	case *types.Chan:
		return 18
	case *types.Signature:
		return 19
	case *types.Map:
		return 21
	case *types.Pointer:
		return 22
	case *types.Slice:
		return 23
	case *types.Struct:
		return 25
	}
	return 0
}

func isPointerLike(t types.Type) bool {
	switch t.Underlying().(type) {
	case *types.Pointer, *types.Map, *types.Chan, *types.Signature, *types.Slice:
		return true
	}
	return false
}

func (fe *FE) execTypeAssert(st *State, x *ssa.TypeAssert, site string) bool {
	v := fe.valOf(st, x.X)
	if v.Kind != VScalar {
		fe.errorf("type assert on %v", v)
		return false
	}
	var okT string
	var res Val
	if _, isIface := x.AssertedType.Underlying().(*types.Interface); isIface {
		okT = fe.newConst(st, "implements", SBool)
		st.assume(implies(okT, "(not (= "+v.T+" 0))"))
		res = scalar(v.T, SInt, x.AssertedType)
	} else {
		tid := fe.V.typeID(x.AssertedType)
		okT = and("(not (= "+v.T+" 0))", eq("(dyn_type "+v.T+")", fmt.Sprintf("%d", tid)))
		tk := typeKey(x.AssertedType)
		if s := fe.S.scalarSort(x.AssertedType); s != "" {
			un := "unbox_" + tk
			fe.globalDecl(un, fmt.Sprintf("(declare-fun %s (Int) %s)", un, s))
			res = scalar("("+un+" "+v.T+")", s, x.AssertedType)
		} else if isSliceType(x.AssertedType) {
			g := func(n string) string {
				un := "unbox_" + tk + "_" + n
				fe.globalDecl(un, fmt.Sprintf("(declare-fun %s (Int) Int)", un))
				return "(" + un + " " + v.T + ")"
			}
			res = Val{Kind: VSlice, Arr: g("arr"), Off: g("off"), Len: g("len"), Cap: g("cap"), GoT: x.AssertedType}
		} else {
			fe.errorf("unsupported type assertion to %s", x.AssertedType)
			return false
		}
	}
	if x.CommaOk {
		st.vals[x] = Val{Kind: VTuple, Elems: []Val{res, scalar(okT, SBool, types.Typ[types.Bool])}, GoT: x.Type()}
		return true
	}
	fe.safety(st, okT, "type-assert@"+site, "failed type assertion")
	fe.assumeClosed(st, res)
	st.vals[x] = res
	return true
}

func (fe *FE) execConvert(st *State, x *ssa.Convert) Val {
	v := fe.valOf(st, x.X)
	from := x.X.Type()
	to := x.Type()
	fs := fe.S.scalarSort(from)
	ts := fe.S.scalarSort(to)
	if v.Kind == VSlice && ts == SStr {
		// string([]byte): contents are not modelled
		return scalar(fe.newConst(st, "conv", SStr), SStr, to)
	}
	if v.Kind != VScalar {
		fe.errorf("convert of non-scalar")
		return fe.zeroVal(to)
	}
	switch {
	case fs == ts && !isBVSort(fs):
		if fs == SInt {
			// int-mode integer conversion: value preserved only if representable
			r := intRange(to)
			if r != "" && intRange(from) != r {
				if fe.C.Arith == "int unchecked" {
					// sound without a range obligation: the result lies in the target's range and equals the operand
					// whenever the operand is representable (otherwise it is left unconstrained)
					c := fe.newConst(st, "conv", SInt)
					st.assume(strings.ReplaceAll(r, "$", c))
					st.assume(implies(strings.ReplaceAll(r, "$", v.T), eq(c, v.T)))
					return scalar(c, ts, to)
				}
				fe.addOb(st, "arith-range", "convert@"+fe.curPos, nil, strings.ReplaceAll(r, "$", v.T), "integer conversion keeps the value (integers are modelled as mathematical)")
			}
		}
		return scalar(v.T, ts, to)
	case isBVSort(fs) && isBVSort(ts):
		var fw, tw int
		fmt.Sscanf(fs, "(_ BitVec %d)", &fw)
		fmt.Sscanf(ts, "(_ BitVec %d)", &tw)
		switch {
		case fw == tw:
			return scalar(v.T, ts, to)
		case fw > tw:
			return scalar(fmt.Sprintf("((_ extract %d 0) %s)", tw-1, v.T), ts, to)
		default:
			if isSignedT(from) {
				return scalar(fmt.Sprintf("((_ sign_extend %d) %s)", tw-fw, v.T), ts, to)
			}
			return scalar(fmt.Sprintf("((_ zero_extend %d) %s)", tw-fw, v.T), ts, to)
		}
	case isBVSort(fs) && isFloatSort(ts):
		eb, sb := 11, 53
		if ts == SF32 {
			eb, sb = 8, 24
		}
		if ts == SF64 {
			// integer -> float64: the spec functions i2f / u2f of the SMT prelude (uninterpreted, constrained only at
			// -1, 0, 1: a sound abstraction of the IEEE conversion)
			var fw int
			fmt.Sscanf(fs, "(_ BitVec %d)", &fw)
			t := v.T
			if fw < 64 {
				ext := "zero_extend"
				if isSignedT(from) {
					ext = "sign_extend"
				}
				t = fmt.Sprintf("((_ %s %d) %s)", ext, 64-fw, v.T)
			}
			if isSignedT(from) {
				return scalar("(i2f "+t+")", ts, to)
			}
			return scalar("(u2f "+t+")", ts, to)
		}
		if isSignedT(from) {
			return scalar(fmt.Sprintf("((_ to_fp %d %d) RNE %s)", eb, sb, v.T), ts, to)
		}
		return scalar(fmt.Sprintf("((_ to_fp_unsigned %d %d) RNE %s)", eb, sb, v.T), ts, to)
	case isFloatSort(fs) && isBVSort(ts):
		var tw int
		fmt.Sscanf(ts, "(_ BitVec %d)", &tw)
		// Go: result is implementation-defined when the value is out of range; in range: truncation toward zero
		r := fe.newConst(st, "f2i", ts)
		var conv string
		if isSignedT(to) {
			conv = fmt.Sprintf("((_ fp.to_sbv %d) RTZ %s)", tw, v.T)
		} else {
			conv = fmt.Sprintf("((_ fp.to_ubv %d) RTZ %s)", tw, v.T)
		}
		st.assume(implies(fe.floatInRange(v.T, fs, tw, isSignedT(to)), eq(r, conv)))
		return scalar(r, ts, to)
	case isFloatSort(fs) && isFloatSort(ts):
		if fs == ts {
			return scalar(v.T, ts, to)
		}
		eb, sb := 11, 53
		if ts == SF32 {
			eb, sb = 8, 24
		}
		return scalar(fmt.Sprintf("((_ to_fp %d %d) RNE %s)", eb, sb, v.T), ts, to)
	case fs == SInt && isFloatSort(ts):
		if ts == SF64 {
			// integer -> float64 in int mode: the uninterpreted spec function n2f (sound abstraction of the IEEE conversion)
			return scalar("(n2f "+v.T+")", ts, to)
		}
		return scalar(fmt.Sprintf("((_ to_fp 8 24) RNE (to_real %s))", v.T), ts, to)
	case isFloatSort(fs) && ts == SInt:
		// float -> integer in int mode: the uninterpreted spec function f2n, within the target's range
		t := v.T
		if fs == SF32 {
			t = "((_ to_fp 11 53) RNE " + v.T + ")"
		}
		c := fe.newConst(st, "f2n", SInt)
		if r := intRange(to); r != "" {
			st.assume(strings.ReplaceAll(r, "$", c))
			st.assume(implies(strings.ReplaceAll(r, "$", "(f2n "+t+")"), eq(c, "(f2n "+t+")")))
		} else {
			st.assume(eq(c, "(f2n "+t+")"))
		}
		return scalar(c, ts, to)
	case fs == SStr || ts == SStr:
		r := fe.newConst(st, "conv", ts)
		return scalar(r, ts, to)
	}
	fe.errorf("unsupported conversion %s -> %s", from, to)
	return fe.zeroVal(to)
}

// floatInRange: trunc(f) representable in a w-bit (signed/unsigned) integer.
func (fe *FE) floatInRange(f, fsort string, w int, signed bool) string {
	eb, sb := 11, 53
	if fsort == SF32 {
		eb, sb = 8, 24
	}
	lit := func(s string) string { return fmt.Sprintf("((_ to_fp %d %d) RNE %s)", eb, sb, s) }
	pow := func(k int) string {
		// 2^k as decimal
		x := new(strings.Builder)
		v := uint64(1) << uint(k%64)
		if k == 64 {
			return "18446744073709551616.0"
		}
		fmt.Fprintf(x, "%d.0", v)
		return x.String()
	}
	tr := "(fp.roundToIntegral RTZ " + f + ")"
	if signed {
		lo := "(fp.neg " + lit(pow(w-1)) + ")"
		return and("(not (fp.isNaN "+f+"))", "(fp.geq "+tr+" "+lo+")", "(fp.lt "+tr+" "+lit(pow(w-1))+")")
	}
	return and("(not (fp.isNaN "+f+"))", "(fp.geq "+tr+" "+lit("0.0")+")", "(fp.lt "+tr+" "+lit(pow(w))+")")
}

// cellVal: a captured variable is a pointer to its cell; contracts name the variable, i.e. the cell's contents.
func (fe *FE) cellVal(v Val, ptrT types.Type) Val {
	if v.Kind == VLoc {
		return v
	}
	if v.Kind == VScalar && derefType(ptrT) != nil && !isStructType(derefType(ptrT)) {
		return Val{Kind: VLoc, Loc: fe.asLoc(v, ptrT), GoT: ptrT}
	}
	return v
}

// localType finds the type of a local variable of the verified function by name.
func (fe *FE) localType(name string) types.Type {
	if fe.locals == nil {
		fe.locals = map[string]types.Type{}
		for _, b := range fe.Fn.Blocks {
			for _, ins := range b.Instrs {
				if d, ok := ins.(*ssa.DebugRef); ok {
					if v, ok := d.Object().(*types.Var); ok && !isPkgLevel(v) {
						if _, seen := fe.locals[v.Name()]; !seen {
							fe.locals[v.Name()] = v.Type()
						}
					}
				}
			}
		}
	}
	return fe.locals[name]
}

// isAddrVar: the variable has an address-taken DebugRef somewhere in the function (it lives in a cell).
func (fe *FE) isAddrVar(obj types.Object) bool {
	if fe.addrVars == nil {
		fe.addrVars = map[types.Object]bool{}
		fe.cellNames = map[string]bool{}
		for _, b := range fe.Fn.Blocks {
			for _, ins := range b.Instrs {
				if d, ok := ins.(*ssa.DebugRef); ok && d.IsAddr {
					if _, isAlloc := d.X.(*ssa.Alloc); isAlloc {
						fe.addrVars[d.Object()] = true
					}
				}
				// `new T (name)`: the variable `name` escapes (captured by a closure / address taken)
				if a, ok := ins.(*ssa.Alloc); ok && isIdentName(a.Comment) {
					fe.cellNames[a.Comment] = true
				}
			}
		}
	}
	return fe.addrVars[obj] || fe.cellNames[obj.Name()]
}

func isIdentName(s string) bool {
	if s == "" || s == "varargs" || s == "complit" || s == "slicelit" || s == "makeslice" || s == "new" {
		return false
	}
	for _, c := range s {
		if !(c == '_' || (c >= 'a' && c <= 'z') || (c >= 'A' && c <= 'Z') || (c >= '0' && c <= '9')) {
			return false
		}
	}
	return true
}

func isPkgLevel(v *types.Var) bool {
	return v.Pkg() != nil && v.Parent() == v.Pkg().Scope()
}

// resolveOwnFrame evaluates the function's own modifies clause at entry (for the frame obligations).
func (fe *FE) resolveOwnFrame(st *State) {
	fe.frameWhole = map[string]bool{}
	fe.frameLocs = map[string][]string{}
	if !fe.C.ModSet {
		return
	}
	scratch := st.clone()
	fe.scanning = true
	cc := fe.ownCtx(scratch)
	cc.own = false
	for _, it := range fe.V.expandFrames(fe.C.Modifies) {
		it = strings.TrimSpace(it)
		before := map[string]string{}
		for k, v := range scratch.heap {
			before[k] = v
		}
		// the object a location item denotes is evaluated in the pristine entry state
		pristine := st.clone()
		pc := fe.ownCtx(pristine)
		pc.own = false
		preRef := fe.itemRef(pristine, pc, it)
		names := fe.havocItem(scratch, cc, it, "own frame")
		if strings.HasPrefix(it, "elemsof(") || strings.HasPrefix(it, "mapsof(") {
			for _, n := range names {
				fe.frameWhole[n] = true
				fe.frameWhole[stripComp(n)] = true
			}
			continue
		}
		isLoc := strings.HasPrefix(it, "mapcontents(") || strings.HasPrefix(it, "elems(") || strings.HasPrefix(it, "cell(") || strings.HasPrefix(it, "gset(")
		head := it
		if i := strings.IndexAny(head, ".[("); i >= 0 {
			head = head[:i]
		}
		_, isParam := cc.params[head]
		if !isLoc && !isParam && strings.Contains(it, ".") {
			for _, n := range names {
				fe.frameWhole[n] = true
				fe.frameWhole[stripComp(n)] = true
			}
			continue
		}
		// location item: find the object reference it denotes
		ref := preRef
		for _, n := range names {
			if ref != "" {
				fe.frameLocs[n] = append(fe.frameLocs[n], ref)
				if b := stripComp(n); b != n {
					fe.frameLocs[b] = append(fe.frameLocs[b], ref)
				}
			} else {
				fe.frameWhole[n] = true
				fe.frameWhole[stripComp(n)] = true
			}
		}
	}
	fe.scanning = false
	fe.frameReady = true
}

// itemRef: the object a location-level modifies item refers to (evaluated in the entry state).
func (fe *FE) itemRef(st *State, cc *Ctx, it string) string {
	inner := it
	switch {
	case strings.HasPrefix(it, "mapcontents("), strings.HasPrefix(it, "elems("), strings.HasPrefix(it, "cell("):
		inner = it[strings.Index(it, "(")+1 : len(it)-1]
	case strings.HasPrefix(it, "gset("):
		return ""
	default:
		if dot := strings.LastIndex(it, "."); dot > 0 {
			inner = it[:dot]
		}
	}
	e, err := ParseExpr(inner)
	if err != nil {
		return ""
	}
	if p, ok := cc.params[inner]; ok && (p.Kind == VLoc) && inner == it {
		if len(p.Loc.Idx) > 0 {
			return p.Loc.Idx[0]
		}
	}
	cc.what = "own modifies " + it
	saved := len(fe.errs)
	v := cc.eval(e)
	if len(fe.errs) > saved {
		fe.errs = fe.errs[:saved]
		return ""
	}
	switch v.Kind {
	case VScalar:
		return v.T
	case VSlice:
		return v.Arr
	case VLoc:
		if len(v.Loc.Idx) > 0 {
			return v.Loc.Idx[0]
		}
	}
	return ""
}
