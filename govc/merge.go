package main

// State merging at join points (opt-in per function: contract clause `mergejoins`).
//
// Path-wise symbolic execution multiplies paths at every branch. With `mergejoins` every state that reaches a block
// with two or more predecessors (that is not a loop head) is parked; when the exploration of everything before the
// block is finished, the parked states are merged into ONE state whose facts are the exact disjunction of the paths'
// facts (common prefix factored out) and whose differing values / heap versions are fresh constants tied to each
// path's value inside its disjunct. Nothing is abstracted: the merged state denotes exactly the union of the paths.

import (
	"fmt"
	"sort"
	"strings"

	"golang.org/x/tools/go/ssa"
)

func (fe *FE) isJoinBlock(b *ssa.BasicBlock) bool {
	if !fe.C.MergeJoins || len(b.Preds) < 2 || b.Parent() != fe.Fn {
		return false
	}
	if _, isHead := fe.loops[b]; isHead {
		return false
	}
	return true
}

// rpo numbers blocks in reverse postorder of the CFG without back edges (a topological order of the forward edges).
func (fe *FE) computeRPO() {
	fe.rpo = map[*ssa.BasicBlock]int{}
	seen := map[*ssa.BasicBlock]bool{}
	onStack := map[*ssa.BasicBlock]bool{}
	var post []*ssa.BasicBlock
	var dfs func(b *ssa.BasicBlock)
	dfs = func(b *ssa.BasicBlock) {
		seen[b] = true
		onStack[b] = true
		for _, s := range b.Succs {
			if !seen[s] && !onStack[s] {
				dfs(s)
			}
		}
		onStack[b] = false
		post = append(post, b)
	}
	dfs(fe.Fn.Blocks[0])
	for i, b := range post {
		fe.rpo[b] = len(post) - i
	}
}

func (fe *FE) park(st *State, b *ssa.BasicBlock) {
	if fe.pending == nil {
		fe.pending = map[*ssa.BasicBlock][]*State{}
	}
	fe.pending[b] = append(fe.pending[b], st)
}

// drainJoins continues from parked states, always at the earliest (topologically) join first.
func (fe *FE) drainJoins() {
	for len(fe.pending) > 0 {
		var best *ssa.BasicBlock
		for b := range fe.pending {
			if best == nil || fe.rpo[b] < fe.rpo[best] {
				best = b
			}
		}
		sts := fe.pending[best]
		delete(fe.pending, best)
		for _, m := range fe.mergeStates(sts, best) {
			m.curBlock = best
			fe.execBody(m, best, true)
		}
		if len(fe.errs) > 20 {
			return
		}
	}
}

func (fe *FE) compatKey(st *State) string {
	var sb strings.Builder
	if st.curLoop != nil {
		fmt.Fprintf(&sb, "L%d;", st.curLoop.Index)
	}
	var open []int
	for b, o := range st.open {
		if o {
			open = append(open, b.Index)
		}
	}
	sort.Ints(open)
	fmt.Fprintf(&sb, "O%v;P%v;R%s;E%p;F%v;", open, st.paniced, st.recoverV, st.loopEnt, st.frames)
	for _, d := range st.defers {
		fmt.Fprintf(&sb, "D%p/%s/%s;", d.instr, d.native, d.ref)
	}
	fmt.Fprintf(&sb, "T%v;U%v;N%v;K%v;G%v;B%v", st.live, sortedKeys(st.unstable), sortedKeys(st.nonnil), st.locksTouched, st.guarded, st.guardedBases)
	return sb.String()
}

func valKey(v Val) string {
	switch v.Kind {
	case VScalar:
		return "s:" + v.Sort + ":" + v.T
	case VSlice:
		return "sl:" + v.Arr + "," + v.Off + "," + v.Len + "," + v.Cap
	case VLoc:
		return "l:" + v.Loc.Base + ":" + strings.Join(v.Loc.Idx, ",")
	case VTuple:
		var xs []string
		for _, e := range v.Elems {
			xs = append(xs, valKey(e))
		}
		return "t:(" + strings.Join(xs, ";") + ")"
	case VFunc, VClosure:
		var xs []string
		for _, e := range v.Binds {
			xs = append(xs, valKey(e))
		}
		return fmt.Sprintf("f:%p[%s]", v.Fn, strings.Join(xs, ";"))
	case VIter:
		return "i:" + v.IterMap + ":" + v.IterVis + ":" + v.IterID
	}
	return "none"
}

// mergeVal: one value standing for vs[i] on path i; eqs[i] collects the equalities that hold on path i.
func (fe *FE) mergeVal(m *State, hint string, vs []Val, eqs [][]string) (Val, bool) {
	same := true
	for _, v := range vs[1:] {
		if valKey(v) != valKey(vs[0]) {
			same = false
			break
		}
	}
	if same {
		return vs[0], true
	}
	k := vs[0].Kind
	for _, v := range vs {
		if v.Kind != k {
			return Val{}, false
		}
	}
	switch k {
	case VScalar:
		srt := ""
		for _, v := range vs {
			if v.Sort != "lit" {
				if srt == "" {
					srt = v.Sort
				} else if srt != v.Sort {
					return Val{}, false
				}
			}
		}
		if srt == "" {
			srt = SInt
		}
		c := fe.newConst(m, "j_"+hint, srt)
		cx := &Ctx{fe: fe, st: m}
		for i, v := range vs {
			if v.Sort == "lit" {
				v = cx.coerceLit(v, srt)
			}
			eqs[i] = append(eqs[i], eq(c, v.T))
		}
		out := vs[0]
		out.T, out.Sort = c, srt
		return out, true
	case VSlice:
		out := vs[0]
		out.Arr = fe.newConst(m, "j_"+hint+"_arr", SInt)
		out.Off = fe.newConst(m, "j_"+hint+"_off", SInt)
		out.Len = fe.newConst(m, "j_"+hint+"_len", SInt)
		out.Cap = fe.newConst(m, "j_"+hint+"_cap", SInt)
		for i, v := range vs {
			eqs[i] = append(eqs[i], eq(out.Arr, v.Arr), eq(out.Off, v.Off), eq(out.Len, v.Len), eq(out.Cap, v.Cap))
		}
		return out, true
	case VTuple:
		n := len(vs[0].Elems)
		for _, v := range vs {
			if len(v.Elems) != n {
				return Val{}, false
			}
		}
		out := vs[0]
		out.Elems = make([]Val, n)
		for j := 0; j < n; j++ {
			col := make([]Val, len(vs))
			for i, v := range vs {
				col[i] = v.Elems[j]
			}
			e, ok := fe.mergeVal(m, fmt.Sprintf("%s_%d", hint, j), col, eqs)
			if !ok {
				return Val{}, false
			}
			out.Elems[j] = e
		}
		return out, true
	case VLoc:
		// same base, reference-indexed cells only (Int indices)
		for _, v := range vs {
			if v.Loc.Base != vs[0].Loc.Base || len(v.Loc.Idx) != len(vs[0].Loc.Idx) || len(v.Loc.Idx) > 2 {
				return Val{}, false
			}
			if strings.HasPrefix(v.Loc.Base, "Mval_") || strings.HasPrefix(v.Loc.Base, "Mdom_") {
				return Val{}, false
			}
		}
		out := vs[0]
		nl := *vs[0].Loc
		nl.Idx = make([]string, len(vs[0].Loc.Idx))
		for j := range nl.Idx {
			nl.Idx[j] = fe.newConst(m, fmt.Sprintf("j_%s_i%d", hint, j), SInt)
			for i, v := range vs {
				eqs[i] = append(eqs[i], eq(nl.Idx[j], v.Loc.Idx[j]))
			}
		}
		out.Loc = &nl
		return out, true
	}
	return Val{}, false
}

func sanitizeHint(s string) string {
	var sb strings.Builder
	for _, c := range s {
		if c >= 'a' && c <= 'z' || c >= 'A' && c <= 'Z' || c >= '0' && c <= '9' || c == '_' {
			sb.WriteRune(c)
		}
	}
	if sb.Len() == 0 {
		return "v"
	}
	return sb.String()
}

func (fe *FE) mergeStates(sts []*State, b *ssa.BasicBlock) []*State {
	groups := map[string][]*State{}
	var order []string
	for _, st := range sts {
		k := fe.compatKey(st)
		if _, ok := groups[k]; !ok {
			order = append(order, k)
		}
		groups[k] = append(groups[k], st)
	}
	var out []*State
	for _, k := range order {
		g := groups[k]
		if len(g) == 1 {
			out = append(out, g[0])
			continue
		}
		out = append(out, fe.mergeGroup(g, b))
	}
	return out
}

func (fe *FE) mergeGroup(g []*State, b *ssa.BasicBlock) *State {
	n := len(g)
	m := g[0].clone()
	// facts: common prefix
	p := 0
	for {
		if p >= len(g[0].facts) {
			break
		}
		f := g[0].facts[p]
		ok := true
		for _, st := range g[1:] {
			if p >= len(st.facts) || st.facts[p] != f {
				ok = false
				break
			}
		}
		if !ok {
			break
		}
		p++
	}
	m.facts = append([]string(nil), g[0].facts[:p]...)
	// decls: union in order
	seen := map[string]bool{}
	m.decls = nil
	for _, st := range g {
		for _, d := range st.decls {
			if !seen[d] {
				seen[d] = true
				m.decls = append(m.decls, d)
			}
		}
	}
	eqs := make([][]string, n)
	// SSA values
	m.vals = map[ssa.Value]Val{}
	var keys []ssa.Value
	for k := range g[0].vals {
		keys = append(keys, k)
	}
	sort.Slice(keys, func(i, j int) bool { return keys[i].Name() < keys[j].Name() })
	for _, k := range keys {
		vs := make([]Val, n)
		ok := true
		for i, st := range g {
			v, has := st.vals[k]
			if !has {
				ok = false
				break
			}
			vs[i] = v
		}
		if !ok {
			continue
		}
		if mv, ok := fe.mergeVal(m, sanitizeHint(k.Name()), vs, eqs); ok {
			m.vals[k] = mv
		}
	}
	mergeMap := func(get func(*State) map[string]Val, hintp string) map[string]Val {
		res := map[string]Val{}
		for _, k := range sortedKeys(get(g[0])) {
			vs := make([]Val, n)
			ok := true
			for i, st := range g {
				v, has := get(st)[k]
				if !has {
					ok = false
					break
				}
				vs[i] = v
			}
			if !ok {
				continue
			}
			if mv, ok := fe.mergeVal(m, hintp+sanitizeHint(k), vs, eqs); ok {
				res[k] = mv
			}
		}
		return res
	}
	m.ghosts = mergeMap(func(s *State) map[string]Val { return s.ghosts }, "g_")
	m.names = mergeMap(func(s *State) map[string]Val { return s.names }, "n_")
	// heap versions
	hn := map[string]bool{}
	for _, st := range g {
		for k := range st.heap {
			hn[k] = true
		}
	}
	m.heap = map[string]string{}
	for _, name := range sortedKeys(hn) {
		vers := make([]string, n)
		same := true
		for i, st := range g {
			v, ok := st.heap[name]
			if !ok {
				v = name + "!0"
			}
			vers[i] = v
			if v != vers[0] {
				same = false
			}
		}
		if same {
			if _, ok := g[0].heap[name]; ok {
				m.heap[name] = vers[0]
			}
			continue
		}
		srt, ok := fe.heapSorts[name]
		unknown := !ok
		for _, v := range vers {
			if v == "?" {
				unknown = true
			}
		}
		if unknown {
			m.heap[name] = "?"
			continue
		}
		fe.globalDecl(name+"!0", fmt.Sprintf("(declare-const %s %s)", name+"!0", srt))
		c := fe.newConst(m, name, srt)
		for i, v := range vers {
			eqs[i] = append(eqs[i], eq(c, v))
		}
		m.heap[name] = c
	}
	// allocation counter
	sameCnt := true
	for _, st := range g {
		if st.cnt != g[0].cnt || st.allocN != g[0].allocN {
			sameCnt = false
		}
	}
	if !sameCnt {
		c := fe.newConst(m, "cnt", SInt)
		for i, st := range g {
			cur := st.cnt
			if st.allocN > 0 {
				cur = fmt.Sprintf("(+ %s %d)", st.cnt, st.allocN)
			}
			eqs[i] = append(eqs[i], eq(c, cur))
		}
		m.cnt = c
		m.allocN = 0
	}
	// the disjunction of the paths
	var disj []string
	for i, st := range g {
		conj := append([]string(nil), st.facts[p:]...)
		conj = append(conj, eqs[i]...)
		switch len(conj) {
		case 0:
			disj = append(disj, "true")
		case 1:
			disj = append(disj, conj[0])
		default:
			disj = append(disj, "(and "+strings.Join(conj, " ")+")")
		}
	}
	jf := "(or " + strings.Join(disj, " ") + ")"
	m.assume(jf)
	fe.jmu.Lock()
	if fe.joinDisj == nil {
		fe.joinDisj = map[string][]string{}
	}
	fe.joinDisj[jf] = disj
	fe.jmu.Unlock()
	// path label: common prefix + join marker
	cp := 0
	for {
		if cp >= len(g[0].path) {
			break
		}
		ok := true
		for _, st := range g[1:] {
			if cp >= len(st.path) || st.path[cp] != g[0].path[cp] {
				ok = false
				break
			}
		}
		if !ok {
			break
		}
		cp++
	}
	m.path = append(append([]string(nil), g[0].path[:cp]...), fmt.Sprintf("join@b%d(%d)", b.Index, n))
	fe.paths -= n - 1
	return m
}
