package main

// Contract expression language: lexer + Pratt parser.
//
//   e ::= lit | ident | e.f | e[i] | e[lo:hi] | f(e,...) | old(e) | len(e)
//       | !e | -e | e op e | forall x[: T], y :: e | exists ... | ite(c,a,b)
//       | let x := e :: e | (e)
//   op: * / %  + -  == != < <= > >=  &&  ||  ==>  <==>  in
import (
	"fmt"
	"strings"
	"unicode"
)

type Expr struct {
	Op   string  // "lit","id","sel","idx","slice","call","un","bin","q","let"
	S    string  // literal text / identifier / field / operator / callee / quantifier kind
	Kids []*Expr // operands
	Vars []QVar  // quantifier variables
	Pos  int
}

type QVar struct {
	Name string
	Type string // "", "int", "string", "ref", "bool", or a Go type name
}

func (e *Expr) String() string {
	if e == nil {
		return "<nil>"
	}
	switch e.Op {
	case "lit", "id":
		return e.S
	case "str":
		return fmt.Sprintf("%q", e.S)
	case "sel":
		return e.Kids[0].String() + "." + e.S
	case "idx":
		return e.Kids[0].String() + "[" + e.Kids[1].String() + "]"
	case "slice":
		return e.Kids[0].String() + "[" + e.Kids[1].String() + ":" + e.Kids[2].String() + "]"
	case "call":
		var a []string
		for _, k := range e.Kids {
			a = append(a, k.String())
		}
		return e.S + "(" + strings.Join(a, ", ") + ")"
	case "un":
		return e.S + e.Kids[0].String()
	case "bin":
		return "(" + e.Kids[0].String() + " " + e.S + " " + e.Kids[1].String() + ")"
	case "q":
		var vs []string
		for _, v := range e.Vars {
			if v.Type != "" {
				vs = append(vs, v.Name+": "+v.Type)
			} else {
				vs = append(vs, v.Name)
			}
		}
		return "(" + e.S + " " + strings.Join(vs, ", ") + " :: " + e.Kids[0].String() + ")"
	case "let":
		return "(let " + e.S + " := " + e.Kids[0].String() + " in " + e.Kids[1].String() + ")"
	}
	return "?" + e.Op
}

type etok struct {
	k   string // "id","num","str","op","eof"
	s   string
	pos int
}

func lexExpr(src string) ([]etok, error) {
	var toks []etok
	i := 0
	for i < len(src) {
		c := src[i]
		switch {
		case c == ' ' || c == '\t':
			i++
		case unicode.IsLetter(rune(c)) || c == '_' || c == '#' || c == '$':
			j := i + 1
			for j < len(src) && (unicode.IsLetter(rune(src[j])) || unicode.IsDigit(rune(src[j])) || src[j] == '_' || src[j] == '$' || src[j] == '#') {
				j++
			}
			toks = append(toks, etok{"id", src[i:j], i})
			i = j
		case unicode.IsDigit(rune(c)):
			j := i + 1
			for j < len(src) && (unicode.IsDigit(rune(src[j])) || src[j] == 'x' || (src[j] >= 'a' && src[j] <= 'f') || (src[j] >= 'A' && src[j] <= 'F')) {
				j++
			}
			toks = append(toks, etok{"num", src[i:j], i})
			i = j
		case c == '"':
			j := i + 1
			var sb strings.Builder
			for j < len(src) && src[j] != '"' {
				if src[j] == '\\' && j+1 < len(src) {
					j++
					switch src[j] {
					case 'n':
						sb.WriteByte('\n')
					case 't':
						sb.WriteByte('\t')
					default:
						sb.WriteByte(src[j])
					}
				} else {
					sb.WriteByte(src[j])
				}
				j++
			}
			if j >= len(src) {
				return nil, fmt.Errorf("unterminated string at %d", i)
			}
			toks = append(toks, etok{"str", sb.String(), i})
			i = j + 1
		default:
			ops := []string{"<==>", "==>", "::", ":=", "==", "!=", "<=", ">=", "&&", "||", "(", ")", "[", "]", ",", ".", ":", "<", ">", "+", "-", "*", "/", "%", "!", "?"}
			matched := false
			for _, op := range ops {
				if strings.HasPrefix(src[i:], op) {
					toks = append(toks, etok{"op", op, i})
					i += len(op)
					matched = true
					break
				}
			}
			if !matched {
				return nil, fmt.Errorf("unexpected character %q at %d in %q", c, i, src)
			}
		}
	}
	toks = append(toks, etok{"eof", "", len(src)})
	return toks, nil
}

type exprParser struct {
	toks []etok
	p    int
	src  string
}

func ParseExpr(src string) (*Expr, error) {
	toks, err := lexExpr(src)
	if err != nil {
		return nil, err
	}
	ps := &exprParser{toks: toks, src: src}
	e, err := ps.parse(0)
	if err != nil {
		return nil, err
	}
	if ps.peek().k != "eof" {
		return nil, fmt.Errorf("trailing input at %d (%q) in %q", ps.peek().pos, ps.peek().s, src)
	}
	return e, nil
}

func (ps *exprParser) peek() etok { return ps.toks[ps.p] }
func (ps *exprParser) next() etok { t := ps.toks[ps.p]; ps.p++; return t }
func (ps *exprParser) accept(s string) bool {
	if t := ps.peek(); (t.k == "op" || t.k == "id") && t.s == s {
		ps.p++
		return true
	}
	return false
}
func (ps *exprParser) expect(s string) error {
	if !ps.accept(s) {
		return fmt.Errorf("expected %q at %d, found %q in %q", s, ps.peek().pos, ps.peek().s, ps.src)
	}
	return nil
}

var binPrec = map[string]int{
	"<==>": 1, "==>": 2, "||": 3, "&&": 4,
	"==": 5, "!=": 5, "<": 5, "<=": 5, ">": 5, ">=": 5, "in": 5,
	"+": 6, "-": 6, "*": 7, "/": 7, "%": 7,
}

func (ps *exprParser) parse(minPrec int) (*Expr, error) {
	lhs, err := ps.parseUnary()
	if err != nil {
		return nil, err
	}
	for {
		t := ps.peek()
		if !(t.k == "op" || (t.k == "id" && t.s == "in")) {
			break
		}
		prec, ok := binPrec[t.s]
		if !ok || prec < minPrec {
			break
		}
		ps.next()
		var rhs *Expr
		if t.s == "==>" || t.s == "<==>" { // right assoc
			rhs, err = ps.parse(prec)
		} else {
			rhs, err = ps.parse(prec + 1)
		}
		if err != nil {
			return nil, err
		}
		lhs = &Expr{Op: "bin", S: t.s, Kids: []*Expr{lhs, rhs}, Pos: t.pos}
	}
	return lhs, nil
}

func (ps *exprParser) parseUnary() (*Expr, error) {
	t := ps.peek()
	if t.k == "op" && (t.s == "!" || t.s == "-") {
		ps.next()
		k, err := ps.parseUnary()
		if err != nil {
			return nil, err
		}
		return &Expr{Op: "un", S: t.s, Kids: []*Expr{k}, Pos: t.pos}, nil
	}
	return ps.parsePostfix()
}

func (ps *exprParser) parsePostfix() (*Expr, error) {
	e, err := ps.parsePrimary()
	if err != nil {
		return nil, err
	}
	for {
		t := ps.peek()
		if t.k != "op" {
			break
		}
		if t.s == "." {
			ps.next()
			f := ps.next()
			if f.k != "id" && f.k != "num" {
				return nil, fmt.Errorf("expected field after '.' at %d in %q", f.pos, ps.src)
			}
			e = &Expr{Op: "sel", S: f.s, Kids: []*Expr{e}, Pos: t.pos}
			continue
		}
		if t.s == "[" {
			ps.next()
			var lo *Expr
			if ps.peek().s != ":" {
				lo, err = ps.parse(0)
				if err != nil {
					return nil, err
				}
			}
			if ps.accept(":") {
				var hi *Expr
				if ps.peek().s != "]" {
					hi, err = ps.parse(0)
					if err != nil {
						return nil, err
					}
				}
				if err := ps.expect("]"); err != nil {
					return nil, err
				}
				e = &Expr{Op: "slice", Kids: []*Expr{e, lo, hi}, Pos: t.pos}
				continue
			}
			if err := ps.expect("]"); err != nil {
				return nil, err
			}
			e = &Expr{Op: "idx", Kids: []*Expr{e, lo}, Pos: t.pos}
			continue
		}
		break
	}
	return e, nil
}

func (ps *exprParser) parsePrimary() (*Expr, error) {
	t := ps.next()
	switch t.k {
	case "num":
		return &Expr{Op: "lit", S: t.s, Pos: t.pos}, nil
	case "str":
		return &Expr{Op: "str", S: t.s, Pos: t.pos}, nil
	case "op":
		if t.s == "(" {
			e, err := ps.parse(0)
			if err != nil {
				return nil, err
			}
			if err := ps.expect(")"); err != nil {
				return nil, err
			}
			return e, nil
		}
	case "id":
		switch t.s {
		case "true", "false", "nil":
			return &Expr{Op: "lit", S: t.s, Pos: t.pos}, nil
		case "forall", "exists":
			var vars []QVar
			for {
				v := ps.next()
				if v.k != "id" {
					return nil, fmt.Errorf("expected bound variable at %d in %q", v.pos, ps.src)
				}
				qv := QVar{Name: v.s}
				if ps.accept(":") {
					ty := ps.next()
					qv.Type = ty.s
				}
				vars = append(vars, qv)
				if !ps.accept(",") {
					break
				}
			}
			if err := ps.expect("::"); err != nil {
				return nil, err
			}
			body, err := ps.parse(0)
			if err != nil {
				return nil, err
			}
			return &Expr{Op: "q", S: t.s, Vars: vars, Kids: []*Expr{body}, Pos: t.pos}, nil
		case "let":
			v := ps.next()
			if err := ps.expect(":="); err != nil {
				return nil, err
			}
			a, err := ps.parse(0)
			if err != nil {
				return nil, err
			}
			if err := ps.expect("::"); err != nil {
				return nil, err
			}
			b, err := ps.parse(0)
			if err != nil {
				return nil, err
			}
			return &Expr{Op: "let", S: v.s, Kids: []*Expr{a, b}, Pos: t.pos}, nil
		}
		if ps.peek().k == "op" && ps.peek().s == "(" {
			ps.next()
			var args []*Expr
			if !ps.accept(")") {
				for {
					a, err := ps.parse(0)
					if err != nil {
						return nil, err
					}
					args = append(args, a)
					if ps.accept(")") {
						break
					}
					if err := ps.expect(","); err != nil {
						return nil, err
					}
				}
			}
			return &Expr{Op: "call", S: t.s, Kids: args, Pos: t.pos}, nil
		}
		return &Expr{Op: "id", S: t.s, Pos: t.pos}, nil
	}
	return nil, fmt.Errorf("unexpected etok %q at %d in %q", t.s, t.pos, ps.src)
}
