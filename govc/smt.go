package main

// SMT-LIB helpers: sorts, symbol sanitising, prelude text.

import (
	"fmt"
	"go/types"
	"sort"
	"strings"
)

const (
	SInt  = "Int"
	SBool = "Bool"
	SStr  = "Str"
	SRV   = "RV"
	SF64  = "(_ FloatingPoint 11 53)"
	SF32  = "(_ FloatingPoint 8 24)"
)

func bvSort(w int) string { return fmt.Sprintf("(_ BitVec %d)", w) }

func sanitize(s string) string {
	var sb strings.Builder
	for _, c := range s {
		switch {
		case c >= 'a' && c <= 'z', c >= 'A' && c <= 'Z', c >= '0' && c <= '9', c == '_':
			sb.WriteRune(c)
		case c == '*':
			sb.WriteString("p")
		case c == '[':
			sb.WriteString("s")
		case c == ']':
			sb.WriteString("_")
		case c == '.', c == '/':
			sb.WriteString("_")
		case c == '{', c == '}':
			// skip
		default:
			sb.WriteString("_")
		}
	}
	return sb.String()
}

func and(ts ...string) string {
	var xs []string
	for _, t := range ts {
		if t == "true" || t == "" {
			continue
		}
		if t == "false" {
			return "false"
		}
		xs = append(xs, t)
	}
	if len(xs) == 0 {
		return "true"
	}
	if len(xs) == 1 {
		return xs[0]
	}
	return "(and " + strings.Join(xs, " ") + ")"
}

func or(ts ...string) string {
	var xs []string
	for _, t := range ts {
		if t == "false" || t == "" {
			continue
		}
		if t == "true" {
			return "true"
		}
		xs = append(xs, t)
	}
	if len(xs) == 0 {
		return "false"
	}
	if len(xs) == 1 {
		return xs[0]
	}
	return "(or " + strings.Join(xs, " ") + ")"
}

func not(t string) string {
	if t == "true" {
		return "false"
	}
	if t == "false" {
		return "true"
	}
	if strings.HasPrefix(t, "(not ") && balancedTail(t[5:len(t)-1]) {
		return t[5 : len(t)-1]
	}
	return "(not " + t + ")"
}

func balancedTail(s string) bool {
	d := 0
	for i, c := range s {
		if c == '(' {
			d++
		} else if c == ')' {
			d--
			if d < 0 {
				return false
			}
			if d == 0 && i != len(s)-1 {
				return false
			}
		} else if d == 0 && (c == ' ') {
			return false
		}
	}
	return d == 0
}

func implies(a, b string) string {
	if a == "true" {
		return b
	}
	if a == "false" || b == "true" {
		return "true"
	}
	return "(=> " + a + " " + b + ")"
}

func eq(a, b string) string {
	if a == b {
		return "true"
	}
	return "(= " + a + " " + b + ")"
}

func ite(c, a, b string) string {
	if c == "true" {
		return a
	}
	if c == "false" {
		return b
	}
	return "(ite " + c + " " + a + " " + b + ")"
}

func sel(arr string, idx ...string) string {
	t := arr
	for _, i := range idx {
		t = "(select " + t + " " + i + ")"
	}
	return t
}

// storeN builds the nested store updating arr at idx... with v.
func storeN(arr string, idx []string, v string) string {
	if len(idx) == 1 {
		return "(store " + arr + " " + idx[0] + " " + v + ")"
	}
	inner := storeN("(select "+arr+" "+idx[0]+")", idx[1:], v)
	return "(store " + arr + " " + idx[0] + " " + inner + ")"
}

func arraySort(idxSorts []string, elem string) string {
	s := elem
	for i := len(idxSorts) - 1; i >= 0; i-- {
		s = "(Array " + idxSorts[i] + " " + s + ")"
	}
	return s
}

func intLit(n int64) string {
	if n < 0 {
		return fmt.Sprintf("(- %d)", -n)
	}
	return fmt.Sprintf("%d", n)
}

func bvLit(v uint64, w int) string {
	if w < 64 {
		v &= (uint64(1) << uint(w)) - 1
	}
	return fmt.Sprintf("(_ bv%d %d)", v, w)
}

// Prelude: sorts and functions shared by every query.
const smtPreludeCore = `
(declare-sort Str 0)
(declare-sort RV 0)
(declare-sort Cx 0)
(declare-fun strlen (Str) Int)
(assert (forall ((s Str)) (! (>= (strlen s) 0) :pattern ((strlen s)))))
(declare-fun strlt (Str Str) Bool)
(declare-fun strcat (Str Str) Str)
(declare-fun hasPrefix (Str Str) Bool)
(declare-const RV_zero RV)
(declare-fun rv_valid (RV) Bool)
(declare-fun rv_kind (RV) Int)
(declare-fun rv_bits (RV) (_ BitVec 64))
(declare-fun rv_f64 (RV) (_ FloatingPoint 11 53))
(declare-fun rv_str (RV) Str)
(declare-fun rv_bool (RV) Bool)
(declare-fun rv_ref (RV) Int)
(declare-fun rv_typ (RV) Int)
(assert (not (rv_valid RV_zero)))
(assert (= (rv_kind RV_zero) 0))
(assert (forall ((v RV)) (! (=> (not (rv_valid v)) (= v RV_zero)) :pattern ((rv_valid v)))))
(assert (forall ((v RV)) (! (and (<= 0 (rv_kind v)) (<= (rv_kind v) 26) (= (= (rv_kind v) 0) (not (rv_valid v)))) :pattern ((rv_kind v)))))
(declare-fun dyn_type (Int) Int)
(declare-fun kindName (Int) Str)
(declare-fun cite (Int) Int)
(declare-fun fmtline (Str) Int)
(define-fun godiv ((a Int) (b Int)) Int (ite (>= a 0) (ite (> b 0) (div a b) (- (div a (- b)))) (ite (> b 0) (- (div (- a) b)) (div (- a) (- b)))))
(define-fun gomod ((a Int) (b Int)) Int (- a (* b (godiv a b))))
`

// typeKey gives a short stable name for a Go type, used in heap array names.
func typeKey(t types.Type) string {
	s := types.TypeString(t, func(p *types.Package) string { return p.Name() })
	return sanitize(s)
}

func sortedKeys[V any](m map[string]V) []string {
	ks := make([]string, 0, len(m))
	for k := range m {
		ks = append(ks, k)
	}
	sort.Strings(ks)
	return ks
}
