package main

import (
	"fmt"
	"go/types"
	"strings"
	"sync"

	"golang.org/x/tools/go/ssa"
)

// Obligation: one proof goal (context facts + goal), i.e. one SMT query.
type Obligation struct {
	Name    string   `json:"name"`
	Func    string   `json:"func"`
	Kind    string   `json:"kind"`
	Tags    []string `json:"tags"`
	Src     string   `json:"src,omitempty"`
	Pos     string   `json:"pos,omitempty"`
	Path    string   `json:"path,omitempty"`
	Decls   []string `json:"-"`
	Facts   []string `json:"-"`
	Goal    string   `json:"-"`
	Globals []string `json:"-"`
	Smoke   bool     `json:"smoke,omitempty"` // vacuity probe: goal false must NOT be provable
	Result  string   `json:"result"`          // unsat (discharged) / sat / unknown / timeout / error
	Solver  string   `json:"solver,omitempty"`
	Seconds float64  `json:"seconds"`
	Model   string   `json:"model,omitempty"`
	File    string   `json:"file,omitempty"`
	Detail  string   `json:"detail,omitempty"`
}

type deferred struct {
	call   ssa.CallInstruction
	fnVal  Val
	args   []Val
	instr  *ssa.Defer
	native string // "unlock:<ref>" for defer mu.Unlock()
	ref    string
}

type liveTask struct {
	wg   string   // waitgroup ref term ("" if not joined)
	mods []string // heap base names the task may modify
}

// State of one symbolic path.
type State struct {
	vals         map[ssa.Value]Val
	heap         map[string]string // heap array name -> current SMT term
	ghosts       map[string]Val
	names        map[string]Val // source-level variable name -> value or location
	facts        []string
	decls        []string
	open         map[*ssa.BasicBlock]bool
	cnt          string // allocation counter base
	allocN       int
	defers       []deferred
	path         []string
	oldHeap      map[string]string
	oldVals      map[string]Val // ghost snapshot at entry
	live         []liveTask
	paniced      bool
	recoverV     string
	loopEnt      map[*ssa.BasicBlock]map[string]string // heap at loop entry (for old-at-loop)
	curLoop      *ssa.BasicBlock
	curBlock     *ssa.BasicBlock
	unstable     map[string]bool
	nonnil       map[string]bool
	locksTouched []string
	guardedBases map[string]string // heap base name -> lock reference term (function-scoped field guard)
	guarded      map[string]string // object / cell / map reference term -> lock reference term that must be held
	frames       []*inlineFrame    // inlined callees without a contract (innermost last)
}

// inlineFrame: a loop-free repo function without a contract whose body is executed in place of the call.
type inlineFrame struct {
	fn     *ssa.Function
	retTo  *ssa.BasicBlock
	retIdx int
	res    ssa.Value
	names  map[string]Val
}

func (s *State) clone() *State {
	n := &State{
		vals:         make(map[ssa.Value]Val, len(s.vals)),
		heap:         make(map[string]string, len(s.heap)),
		ghosts:       make(map[string]Val, len(s.ghosts)),
		names:        make(map[string]Val, len(s.names)),
		facts:        append([]string(nil), s.facts...),
		decls:        append([]string(nil), s.decls...),
		open:         make(map[*ssa.BasicBlock]bool, len(s.open)),
		cnt:          s.cnt,
		allocN:       s.allocN,
		defers:       append([]deferred(nil), s.defers...),
		path:         append([]string(nil), s.path...),
		oldHeap:      s.oldHeap,
		oldVals:      s.oldVals,
		live:         append([]liveTask(nil), s.live...),
		paniced:      s.paniced,
		recoverV:     s.recoverV,
		loopEnt:      s.loopEnt,
		curLoop:      s.curLoop,
		curBlock:     s.curBlock,
		unstable:     make(map[string]bool, len(s.unstable)),
		nonnil:       make(map[string]bool, len(s.nonnil)),
		locksTouched: append([]string(nil), s.locksTouched...),
		frames:       append([]*inlineFrame(nil), s.frames...),
	}
	for k := range s.nonnil {
		n.nonnil[k] = true
	}
	n.guardedBases = s.guardedBases
	n.guarded = make(map[string]string, len(s.guarded))
	for k, v := range s.guarded {
		n.guarded[k] = v
	}
	for k, v := range s.vals {
		n.vals[k] = v
	}
	for k, v := range s.heap {
		n.heap[k] = v
	}
	for k, v := range s.ghosts {
		n.ghosts[k] = v
	}
	for k, v := range s.names {
		n.names[k] = v
	}
	for k, v := range s.open {
		n.open[k] = v
	}
	for k, v := range s.unstable {
		n.unstable[k] = v
	}
	return n
}

func (s *State) assume(f string) {
	if f == "true" || f == "" {
		return
	}
	s.facts = append(s.facts, f)
}

// FE: verification of one function against its contract.
type FE struct {
	V              *Verifier
	Fn             *ssa.Function
	C              *FuncContract
	S              *Sorter
	Obs            []*Obligation
	fresh          int
	gdecls         map[string]string // global (all paths) declarations: name -> full decl line
	gorder         []string
	gaxioms        []string
	strLits        map[string]string // literal -> const name
	strOrder       []string
	paths          int
	heapSorts      map[string]string
	curB           *ssa.BasicBlock // block / index of the instruction being executed (for inlining continuations)
	curI           int
	npWhen         string              // entry condition under which `nopanic own when` claims panic freedom
	joinDisj       map[string][]string // join fact -> its disjuncts (for case splitting in the solver stage)
	jmu            sync.Mutex
	pending        map[*ssa.BasicBlock][]*State // states parked at join blocks (mergejoins)
	rpo            map[*ssa.BasicBlock]int
	errs           []string
	loops          map[*ssa.BasicBlock]*loopInfo
	loopOrd        []*ssa.BasicBlock
	nopanic        bool
	FnName         string // short display name
	prefixes       map[string]bool
	blockProbes    map[int]int
	usedExt        map[string]bool // extern contracts used (trusted base)
	usedAsm        map[string]bool
	curPos         string
	pendingFork    []*State
	recoverChecked bool
	locals         map[string]types.Type
	addrVars       map[types.Object]bool
	cellNames      map[string]bool
	loopWriteRefs  []string
	loopWriteWhole map[string]bool
	scanning       bool
	qcount         int
	refHeaps       map[string]int // initial heap arrays holding object references -> number of index levels
	frameWhole     map[string]bool
	frameLocs      map[string][]string
	frameReady     bool
	initializing   bool
	nonFreshWrites []string // positions of writes to pre-existing state (for panicsafe)
	curIns         [2]int
}

type loopInfo struct {
	head    *ssa.BasicBlock
	ord     int
	body    map[*ssa.BasicBlock]bool
	modHeap map[string]bool
	modGh   map[string]bool
	modAll  bool
	inv     []*Clause
	dec     *Clause
	exit    []*Clause // asserted whenever control leaves the loop (normal exit, break, or any other edge out of the body)
}

func (fe *FE) errorf(format string, a ...interface{}) {
	msg := fmt.Sprintf(format, a...)
	if fe.curPos != "" {
		msg = fe.curPos + ": " + msg
	}
	for _, e := range fe.errs {
		if e == msg {
			return
		}
	}
	fe.errs = append(fe.errs, msg)
}

func (fe *FE) freshName(hint string) string {
	fe.fresh++
	return fmt.Sprintf("%s!%d", sanitize(hint), fe.fresh)
}

func (fe *FE) newConst(st *State, hint, sort string) string {
	n := fe.freshName(hint)
	st.decls = append(st.decls, fmt.Sprintf("(declare-const %s %s)", n, sort))
	return n
}

func (fe *FE) globalDecl(name, decl string) {
	if _, ok := fe.gdecls[name]; ok {
		return
	}
	fe.gdecls[name] = decl
	fe.gorder = append(fe.gorder, name)
}

func (fe *FE) strLit(s string) string {
	if n, ok := fe.strLits[s]; ok {
		return n
	}
	n := fmt.Sprintf("lit_%d_%s", len(fe.strLits), sanitize(truncate(s, 16)))
	fe.strLits[s] = n
	fe.strOrder = append(fe.strOrder, s)
	return n
}

func truncate(s string, n int) string {
	if len(s) > n {
		return s[:n]
	}
	return s
}

// heapTerm returns the current term of heap array `name` (declaring its
// initial version when first used).
func (fe *FE) heapTerm(st *State, name, sort string) string {
	if t, ok := st.heap[name]; ok && t != "?" {
		return t
	}
	init := name + "!0"
	fe.globalDecl(init, fmt.Sprintf("(declare-const %s %s)", init, sort))
	fe.heapSort(name, sort)
	if t, ok := st.heap[name]; ok && t == "?" {
		// havocked before its sort was known: current value is unconstrained
		n := fe.newConst(st, name, sort)
		st.heap[name] = n
		return n
	}
	st.heap[name] = init
	return init
}

// heap array sorts are per function: the sort of an int-typed field depends on the function's arithmetic mode
func (fe *FE) heapSort(name, sort string) {
	if fe.heapSorts == nil {
		fe.heapSorts = map[string]string{}
	}
	fe.heapSorts[name] = sort
}

func (fe *FE) havocHeap(st *State, name string) {
	sort, ok := fe.heapSorts[name]
	if !ok {
		st.heap[name] = "?"
		return
	}
	fe.globalDecl(name+"!0", fmt.Sprintf("(declare-const %s %s)", name+"!0", sort))
	st.heap[name] = fe.newConst(st, name, sort)
}

type comp struct {
	suffix string
	sort   string
}

// components of a Go type as stored in the heap.
func (fe *FE) components(t types.Type) []comp {
	if s := fe.S.scalarSort(t); s != "" {
		return []comp{{"", s}}
	}
	if isSliceType(t) {
		return []comp{{".arr", SInt}, {".off", SInt}, {".len", SInt}, {".cap", SInt}}
	}
	return nil
}

func idxSorts(n int, first string) []string {
	out := make([]string, n)
	for i := range out {
		out[i] = SInt
	}
	if n > 0 && first != "" {
		out[0] = first
	}
	return out
}

func (fe *FE) zeroTerm(sort string) string {
	switch sort {
	case SInt:
		return "0"
	case SBool:
		return "false"
	case SStr:
		return fe.strLit("")
	case SRV:
		return "RV_zero"
	case SF64:
		return "(_ +zero 11 53)"
	case SF32:
		return "(_ +zero 8 24)"
	}
	if strings.HasPrefix(sort, "(_ BitVec ") {
		var w int
		fmt.Sscanf(sort, "(_ BitVec %d)", &w)
		return bvLit(0, w)
	}
	return "0"
}

func (fe *FE) zeroVal(t types.Type) Val {
	if s := fe.S.scalarSort(t); s != "" {
		return scalar(fe.zeroTerm(s), s, t)
	}
	if isSliceType(t) {
		return Val{Kind: VSlice, Arr: "0", Off: "0", Len: "0", Cap: "0", GoT: t}
	}
	return Val{Kind: VNone, GoT: t}
}

// load reads the value stored at loc.
func (fe *FE) load(st *State, loc *Loc) Val {
	comps := fe.components(loc.T)
	if comps == nil {
		fe.errorf("unsupported load of type %s at %s", loc.T, loc.Base)
		return Val{Kind: VNone, GoT: loc.T}
	}
	if st.unstable[loc.Base] {
		fe.noteUnstableRead(st, loc)
	}
	if len(loc.Idx) > 0 {
		fe.guardedAccess(st, loc.Idx[0], "load."+loc.Base, fe.curPos)
		fe.guardedBaseAccess(st, loc, "load")
	}
	get := func(c comp) string {
		arr := fe.heapTerm(st, loc.Base+c.suffix, arraySort(idxSorts(len(loc.Idx), ""), c.sort))
		return sel(arr, loc.Idx...)
	}
	if len(comps) == 1 {
		v := scalar(get(comps[0]), comps[0].sort, loc.T)
		fe.noteRefHeap(loc)
		fe.assumeClosed(st, v)
		if cur, ok := st.heap[loc.Base]; ok && cur == loc.Base+"!0" && len(loc.Idx) > 0 && v.Sort == SInt {
			// a location never written by this activation, of an object that existed at entry, holds an object that existed at entry
			switch loc.T.Underlying().(type) {
			case *types.Pointer, *types.Map, *types.Interface:
				st.assume("(=> (<= " + loc.Idx[0] + " cnt!entry) (<= " + v.T + " cnt!entry))")
			}
		}
		// a map read from a guarded field stays guarded by the same lock
		if lf := fe.V.guardLockFn[loc.Base]; lf != "" && len(loc.Idx) > 0 && !isFreshRefTerm(loc.Idx[0]) {
			if _, isMap := loc.T.Underlying().(*types.Map); isMap {
				fe.globalDecl(lf, fmt.Sprintf("(declare-fun %s (Int) Int)", lf))
				if st.guarded == nil {
					st.guarded = map[string]string{}
				}
				st.guarded[v.T] = "(" + lf + " " + loc.Idx[0] + ")"
			}
		}
		return v
	}
	v := Val{Kind: VSlice, Arr: get(comps[0]), Off: get(comps[1]), Len: get(comps[2]), Cap: get(comps[3]), GoT: loc.T}
	fe.noteRefHeap(loc)
	fe.assumeSliceWF(st, v)
	return v
}

func (fe *FE) noteUnstableRead(st *State, loc *Loc) {
	fe.addOb(st, "unstable-read", loc.Base, nil, "false", "read of "+loc.Base+" while a forked task that may modify it is live (before its join)")
}

// assumeClosed: references read from the heap are allocated objects.
func (fe *FE) assumeClosed(st *State, v Val) {
	fe.assumeClosedAt(st, v, fe.cntTerm(st))
}

func (fe *FE) assumeClosedAt(st *State, v Val, bound string) {
	if v.Kind != VScalar || v.Sort != SInt || v.GoT == nil {
		return
	}
	switch v.GoT.Underlying().(type) {
	case *types.Pointer, *types.Map, *types.Interface, *types.Signature:
		st.assume(fmt.Sprintf("(and (<= 0 %s) (<= %s %s))", v.T, v.T, bound))
	case *types.Basic:
		if !fe.S.BV {
			if r := intRange(v.GoT); r != "" {
				st.assume(strings.ReplaceAll(r, "$", v.T))
			}
		}
	}
}

func intRange(t types.Type) string {
	b, ok := t.Underlying().(*types.Basic)
	if !ok || b.Info()&types.IsInteger == 0 {
		return ""
	}
	w, signed := intWidth(b)
	if w == 0 {
		return ""
	}
	if signed {
		if w == 64 {
			return "(and (<= (- 9223372036854775808) $) (<= $ 9223372036854775807))"
		}
		return fmt.Sprintf("(and (<= (- %d) $) (<= $ %d))", int64(1)<<uint(w-1), int64(1)<<uint(w-1)-1)
	}
	if w == 64 {
		return "(and (<= 0 $) (<= $ 18446744073709551615))"
	}
	return fmt.Sprintf("(and (<= 0 $) (<= $ %d))", int64(1)<<uint(w)-1)
}

func (fe *FE) assumeSliceWF(st *State, v Val) {
	st.assume(fmt.Sprintf("(and (<= 0 %s) (<= 0 %s) (<= %s %s) (<= %s 281474976710656) (<= 0 %s) (<= %s %s))", v.Off, v.Len, v.Len, v.Cap, v.Cap, v.Arr, v.Arr, fe.cntTerm(st)))
	st.assume(fmt.Sprintf("(=> (= %s 0) (= %s 0))", v.Arr, v.Cap))
}

func (fe *FE) cntTerm(st *State) string {
	if st.allocN == 0 {
		return st.cnt
	}
	return fmt.Sprintf("(+ %s %d)", st.cnt, st.allocN)
}

func (fe *FE) freshRef(st *State) string {
	st.allocN++
	return fe.cntTerm(st)
}

// bumpCnt: after a call that may allocate, the counter grows by an unknown amount.
func (fe *FE) bumpCnt(st *State) string {
	old := fe.cntTerm(st)
	n := fe.newConst(st, "cnt", SInt)
	st.assume(fmt.Sprintf("(>= %s %s)", n, old))
	st.cnt = n
	st.allocN = 0
	return old
}

// store writes v at loc.
func (fe *FE) store(st *State, loc *Loc, v Val) {
	comps := fe.components(loc.T)
	if comps == nil {
		fe.errorf("unsupported store of type %s at %s", loc.T, loc.Base)
		return
	}
	fe.loopFrameOb(st, loc.Base, loc.Idx)
	if len(loc.Idx) > 0 {
		fe.frameOb(st, loc.Base, loc.Idx[0])
		fe.guardedAccess(st, loc.Idx[0], "store."+loc.Base, fe.curPos)
		fe.guardedBaseAccess(st, loc, "store")
	}
	put := func(c comp, t string) {
		name := loc.Base + c.suffix
		arr := fe.heapTerm(st, name, arraySort(idxSorts(len(loc.Idx), ""), c.sort))
		var nt string
		if len(loc.Idx) == 0 {
			nt = t
		} else {
			nt = storeN(arr, loc.Idx, t)
		}
		// name the new heap version to keep terms small
		n := fe.newConst(st, name, arraySort(idxSorts(len(loc.Idx), ""), c.sort))
		st.assume(eq(n, nt))
		st.heap[name] = n
	}
	if len(comps) == 1 {
		if v.Kind != VScalar {
			fe.errorf("store of non-scalar %v into scalar location %s", v, loc.Base)
			return
		}
		put(comps[0], v.T)
		return
	}
	if v.Kind != VSlice {
		fe.errorf("store of non-slice %v into slice location %s", v, loc.Base)
		return
	}
	put(comps[0], v.Arr)
	put(comps[1], v.Off)
	put(comps[2], v.Len)
	put(comps[3], v.Cap)
}

// field location helpers -----------------------------------------------------

func structName(t types.Type) string {
	if n, ok := t.(*types.Named); ok {
		if n.Obj().Pkg() != nil {
			return n.Obj().Pkg().Name() + "_" + n.Obj().Name()
		}
		return n.Obj().Name()
	}
	return sanitize(shortPkgType(t))
}

func fieldBase(structT types.Type, field string) string {
	return "F_" + structName(structT) + "_" + field
}

// fieldLoc: location (or sub-object ref) of field #i of the struct object `ref` of type structT.
func (fe *FE) fieldAddr(st *State, ref string, structT types.Type, i int) Val {
	su := structT.Underlying().(*types.Struct)
	f := su.Field(i)
	if isStructType(f.Type()) {
		// embedded by value: a sub-object with its own identity
		fn := "sub_" + structName(structT) + "_" + f.Name()
		fe.globalDecl(fn, fmt.Sprintf("(declare-fun %s (Int) Int)", fn))
		return scalar("("+fn+" "+ref+")", SInt, types.NewPointer(f.Type()))
	}
	return Val{Kind: VLoc, Loc: &Loc{Base: fieldBase(structT, f.Name()), Idx: []string{ref}, T: f.Type()}, GoT: types.NewPointer(f.Type())}
}

func elemBase(t types.Type) string { return "E_" + typeKey(t) }
func cellBase(t types.Type) string { return "C_" + typeKey(t) }

// asLoc converts a pointer value to a location.
func (fe *FE) asLoc(v Val, ptrT types.Type) *Loc {
	if v.Kind == VLoc {
		return v.Loc
	}
	if v.Kind == VScalar {
		et := derefType(ptrT)
		if et == nil && v.GoT != nil {
			et = derefType(v.GoT)
		}
		if et == nil {
			fe.errorf("asLoc: not a pointer type %v", ptrT)
			return &Loc{Base: "C_bad", Idx: []string{v.T}, T: types.Typ[types.Int]}
		}
		return &Loc{Base: cellBase(et), Idx: []string{v.T}, T: et}
	}
	fe.errorf("asLoc: unsupported pointer value %v", v)
	return &Loc{Base: "C_bad", Idx: []string{"0"}, T: types.Typ[types.Int]}
}

// asRef converts a pointer value to a scalar reference term (for passing/storing).
func (fe *FE) asRef(v Val) (string, bool) {
	if v.Kind == VScalar {
		return v.T, true
	}
	if v.Kind == VLoc && strings.HasPrefix(v.Loc.Base, "C_") && len(v.Loc.Idx) == 1 {
		return v.Loc.Idx[0], true
	}
	return "", false
}

func rowPreservable(name string) bool {
	return strings.HasPrefix(name, "E_") || strings.HasPrefix(name, "Mdom_") || strings.HasPrefix(name, "Mval_") || strings.HasPrefix(name, "Mlen_")
}

// inLoop: the current block lies in the body of a loop that is open on this path.
func (fe *FE) inLoop(st *State) bool {
	if st.curBlock == nil {
		return false
	}
	for h := range st.open {
		if li := fe.loops[h]; li != nil && li.body[st.curBlock] {
			return true
		}
	}
	return false
}

// loopFrameOb: inside loops, element arrays and maps that already existed when the function was
// entered are only written if the loop declares it (`loop K writes ...`); in exchange their rows
// survive the havoc at the loop head.
func (fe *FE) loopFrameOb(st *State, base string, idx []string) {
	if !rowPreservable(base) || len(idx) == 0 || !fe.inLoop(st) {
		return
	}
	ref := idx[0]
	if isFreshRefTerm(ref) || fe.initializing || fe.loopWriteWhole[base] || fe.loopWriteWhole[stripComp(base)] {
		return
	}
	goal := "(or (= " + ref + " 0) (> " + ref + " cnt!entry)"
	for _, w := range fe.loopWriteRefs {
		goal += " (= " + ref + " " + w + ")"
	}
	goal += ")"
	fe.addOb(st, "loop-frame", sanitize(base)+"@"+fe.curPos, nil, goal, "inside a loop only arrays/maps allocated by this activation are written (rows of pre-existing ones are kept across the loop havoc)")
}

// frameOb: a write to heap array `name` at object `ref` must be allowed by the function's own modifies clause:
// the whole array is listed, or the object was allocated by this activation, or it is one of the listed objects.
func stripComp(name string) string {
	for _, s := range []string{".arr", ".off", ".len", ".cap"} {
		if strings.HasSuffix(name, s) {
			return name[:len(name)-len(s)]
		}
	}
	return name
}

// isFreshRefTerm: syntactically an object allocated by this activation (or a sub-object of one).
func isFreshRefTerm(ref string) bool {
	for strings.HasPrefix(ref, "(sub_") {
		i := strings.Index(ref, " ")
		if i < 0 {
			break
		}
		ref = strings.TrimSuffix(ref[i+1:], ")")
	}
	return strings.HasPrefix(ref, "(+ cnt")
}

func (fe *FE) frameOb(st *State, name, ref string) {
	if fe.scanning || fe.initializing || !fe.frameReady || !fe.C.ModSet {
		return
	}
	if strings.HasPrefix(name, "G_held") || strings.HasPrefix(name, "G_wg_") || strings.HasPrefix(name, "G_it") {
		return
	}
	if strings.HasPrefix(name, "F_antlr_") || strings.HasPrefix(name, "F_parser_") {
		return // internals of the antlr runtime / generated recogniser: not modelled state
	}
	base := name
	if i := strings.LastIndex(base, "."); i > 0 && (strings.HasSuffix(base, ".arr") || strings.HasSuffix(base, ".off") || strings.HasSuffix(base, ".len") || strings.HasSuffix(base, ".cap")) {
		base = base[:i]
	}
	if fe.frameWhole[name] || fe.frameWhole[base] || fe.frameWhole["*"] {
		return
	}
	if isFreshRefTerm(ref) {
		return
	}
	if len(fe.frameLocs[name])+len(fe.frameLocs[base]) > 0 {
		// may be one of the listed pre-existing locations
		fe.nonFreshWrites = append(fe.nonFreshWrites, fmt.Sprintf("%d.%d", fe.curIns[0], fe.curIns[1]))
	}
	goal := "(or (> " + ref + " cnt!entry) (= " + ref + " 0)"
	for _, r := range append(fe.frameLocs[name], fe.frameLocs[base]...) {
		goal += " (= " + ref + " " + r + ")"
	}
	goal += ")"
	fe.addOb(st, "frame", sanitize(base)+"@"+fe.curPos, nil, goal, "every write is to an object allocated by this activation or to a location named in the function's modifies clause")
}

func (fe *FE) frameWholeOb(st *State, name, why string) {
	if fe.scanning || !fe.frameReady || !fe.C.ModSet {
		return
	}
	base := name
	if i := strings.LastIndex(base, "."); i > 0 && (strings.HasSuffix(base, ".arr") || strings.HasSuffix(base, ".off") || strings.HasSuffix(base, ".len") || strings.HasSuffix(base, ".cap")) {
		base = base[:i]
	}
	if fe.frameWhole[name] || fe.frameWhole[base] || fe.frameWhole["*"] {
		return
	}
	fe.addOb(st, "frame", "whole."+sanitize(base)+"@"+fe.curPos, nil, "false", why+": the callee may modify every "+base+" but the caller's modifies clause does not list it")
}

// noteRefHeap: heap arrays whose cells hold object references; at function entry every such cell holds an
// object that already exists (closed heap) -- emitted as an axiom over the initial version of the array.
func (fe *FE) noteRefHeap(loc *Loc) {
	if loc.T == nil || len(loc.Idx) == 0 {
		return
	}
	switch loc.T.Underlying().(type) {
	case *types.Pointer, *types.Map:
		fe.V.mu.Lock()
		if fe.refHeaps == nil {
			fe.refHeaps = map[string]int{}
		}
		fe.refHeaps[loc.Base] = len(loc.Idx)
		fe.V.mu.Unlock()
	case *types.Slice:
		fe.V.mu.Lock()
		if fe.refHeaps == nil {
			fe.refHeaps = map[string]int{}
		}
		fe.refHeaps[loc.Base+".arr"] = len(loc.Idx)
		fe.V.mu.Unlock()
	}
}
