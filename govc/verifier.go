package main

import (
	"fmt"
	"go/types"
	"os"
	"path/filepath"
	"sort"
	"strings"
	"sync"

	"golang.org/x/tools/go/packages"
	"golang.org/x/tools/go/ssa"
	"golang.org/x/tools/go/ssa/ssautil"
)

type smtSig struct {
	args []string
	ret  string
}

type Verifier struct {
	repo        string
	specDir     string
	prog        *ssa.Program
	pkgs        []*packages.Package
	pkgByName   map[string]*packages.Package
	C           *Contracts
	modPath     string
	mu          sync.Mutex
	typeIDs     map[string]int
	smtFuncs    map[string]smtSig
	smtPrelude  string
	fns         map[string]*ssa.Function
	allPkgs     map[string]*types.Package
	guardLockFn map[string]string       // heap base name of a guarded field -> sub-object function of its lock field
	lockInv     map[string]*lockInvInfo // sub-object function of a lock field -> its monitor invariant
}

type lockInvInfo struct {
	ownerT  types.Type
	inv     *Clause
	guarded []guardedField // fields protected by this lock
}

type guardedField struct {
	base string
	t    types.Type
}

func NewVerifier(repo, specDir string) (*Verifier, error) {
	v := &Verifier{repo: repo, specDir: specDir, pkgByName: map[string]*packages.Package{}, typeIDs: map[string]int{}, smtFuncs: map[string]smtSig{}, fns: map[string]*ssa.Function{}, allPkgs: map[string]*types.Package{}}
	cfg := &packages.Config{Mode: packages.LoadAllSyntax, Dir: repo, BuildFlags: []string{"-tags=verif"}, Env: append(os.Environ(), "GOFLAGS=-mod=mod", "GOPROXY=off", "GOSUMDB=off", "GOTOOLCHAIN=local")}
	pkgs, err := packages.Load(cfg, "./engine", "./builder", "./context", "./internal/...")
	if err != nil {
		return nil, err
	}
	var errs []string
	packages.Visit(pkgs, nil, func(p *packages.Package) {
		for _, e := range p.Errors {
			errs = append(errs, e.Error())
		}
		v.allPkgs[p.PkgPath] = p.Types
	})
	if len(errs) > 0 {
		return nil, fmt.Errorf("package load errors: %s", strings.Join(errs, "; "))
	}
	v.pkgs = pkgs
	prog, _ := ssautil.AllPackages(pkgs, ssa.InstantiateGenerics|ssa.GlobalDebug)
	prog.Build()
	v.prog = prog
	pkgDirs := map[string]string{}
	for _, p := range pkgs {
		v.pkgByName[p.Name] = p
		if len(p.GoFiles) > 0 {
			pkgDirs[p.PkgPath] = filepath.Dir(p.GoFiles[0])
		}
		if p.Module != nil {
			v.modPath = p.Module.Path
		}
	}
	if v.modPath == "" {
		v.modPath = "github.com/bilibili/gengine"
	}
	v.C = NewContracts()
	if err := v.C.LoadAll(repo, specDir, pkgDirs); err != nil {
		return nil, err
	}
	for fn := range ssautil.AllFunctions(prog) {
		if fn.Pkg != nil && v.inRepo(fn.Pkg) || fn.Parent() != nil {
			v.fns[v.contractKey(fn)] = fn
		}
	}
	// lock discipline declarations: decl <pkg.Type.field> guarded_by <lockfield>
	v.guardLockFn = map[string]string{}
	declsByBase := map[string]string{}
	v.C.DeclsRaw = v.C.Decls
	for k, d := range v.C.Decls {
		i := strings.LastIndex(k, ".")
		if i < 0 {
			continue
		}
		t := v.resolveType(k[:i], nil)
		fs := strings.Fields(d)
		if t == nil || len(fs) != 2 {
			return nil, fmt.Errorf("bad decl %s %s", k, d)
		}
		base := fieldBase(t, k[i+1:])
		declsByBase[base] = d
		for _, suf := range []string{".arr", ".off", ".len", ".cap"} {
			declsByBase[base+suf] = d
			v.guardLockFn[base+suf] = "sub_" + structName(t) + "_" + fs[1]
		}
		v.guardLockFn[base] = "sub_" + structName(t) + "_" + fs[1]
	}
	v.C.Decls = declsByBase
	v.lockInv = map[string]*lockInvInfo{}
	for k, inv := range v.C.LockInvs {
		i := strings.LastIndex(k, ".")
		t := v.resolveType(k[:i], nil)
		if t == nil {
			return nil, fmt.Errorf("bad lockinv %s", k)
		}
		fn := "sub_" + structName(t) + "_" + k[i+1:]
		v.lockInv[fn] = &lockInvInfo{ownerT: t, inv: inv}
	}
	// fields guarded by each lock
	for k, d := range v.C.DeclsRaw {
		i := strings.LastIndex(k, ".")
		t := v.resolveType(k[:i], nil)
		fs := strings.Fields(d)
		if t == nil || len(fs) != 2 {
			continue
		}
		fn := "sub_" + structName(t) + "_" + fs[1]
		if fs[0] != "guarded_by" {
			continue // access_under: lock discipline only, no interference model
		}
		li := v.lockInv[fn]
		if li == nil {
			li = &lockInvInfo{ownerT: t}
			v.lockInv[fn] = li
		}
		li.guarded = append(li.guarded, guardedField{base: fieldBase(t, k[i+1:]), t: fieldType(t, k[i+1:])})
	}
	// SMT prelude with spec functions
	if b, err := os.ReadFile(filepath.Join(specDir, "prelude.smt2")); err == nil {
		v.smtPrelude = string(b)
		v.parseSMTFuncs(v.smtPrelude)
	}
	v.parseSMTFuncs(smtPreludeCore)
	return v, nil
}

func (v *Verifier) typeID(t types.Type) int {
	k := types.TypeString(t, nil)
	v.mu.Lock()
	defer v.mu.Unlock()
	if id, ok := v.typeIDs[k]; ok {
		return id
	}
	// stable ids: hash of the type string
	h := 0
	for _, c := range k {
		h = (h*131 + int(c)) % 1000003
	}
	id := h + 1000
	v.typeIDs[k] = id
	return id
}

// resolveType parses a Go type expression used in contracts.
func (v *Verifier) resolveType(s string, cur *types.Package) types.Type {
	s = strings.TrimSpace(s)
	switch {
	case s == "":
		return nil
	case strings.HasPrefix(s, "*"):
		if e := v.resolveType(s[1:], cur); e != nil {
			return types.NewPointer(e)
		}
		return nil
	case strings.HasPrefix(s, "[]"):
		if e := v.resolveType(s[2:], cur); e != nil {
			return types.NewSlice(e)
		}
		return nil
	case strings.HasPrefix(s, "map["):
		depth := 0
		for i := 3; i < len(s); i++ {
			if s[i] == '[' {
				depth++
			} else if s[i] == ']' {
				depth--
				if depth == 0 {
					k := v.resolveType(s[4:i], cur)
					e := v.resolveType(s[i+1:], cur)
					if k != nil && e != nil {
						return types.NewMap(k, e)
					}
					return nil
				}
			}
		}
		return nil
	case s == "interface{}" || s == "any":
		return types.NewInterfaceType(nil, nil)
	}
	if obj := types.Universe.Lookup(s); obj != nil {
		if tn, ok := obj.(*types.TypeName); ok {
			return tn.Type()
		}
	}
	if i := strings.LastIndex(s, "."); i >= 0 {
		pn, tn := s[:i], s[i+1:]
		for path, p := range v.allPkgs {
			if p.Name() == pn || path == pn {
				if obj := p.Scope().Lookup(tn); obj != nil {
					if t, ok := obj.(*types.TypeName); ok {
						return t.Type()
					}
				}
			}
		}
		return nil
	}
	if cur != nil {
		if obj := cur.Scope().Lookup(s); obj != nil {
			if t, ok := obj.(*types.TypeName); ok {
				return t.Type()
			}
		}
	}
	// search repo packages by unqualified name
	var names []string
	for path := range v.allPkgs {
		if strings.HasPrefix(path, v.modPath) {
			names = append(names, path)
		}
	}
	sort.Strings(names)
	for _, path := range names {
		if obj := v.allPkgs[path].Scope().Lookup(s); obj != nil {
			if t, ok := obj.(*types.TypeName); ok {
				return t.Type()
			}
		}
	}
	return nil
}

// parseSMTFuncs records signatures of define-fun / declare-fun in an SMT-LIB text.
func (v *Verifier) parseSMTFuncs(text string) {
	toks := sexprTokens(text)
	i := 0
	var parse func() interface{}
	parse = func() interface{} {
		if i >= len(toks) {
			return nil
		}
		t := toks[i]
		i++
		if t == "(" {
			var list []interface{}
			for i < len(toks) && toks[i] != ")" {
				list = append(list, parse())
			}
			i++
			return list
		}
		return t
	}
	var str func(x interface{}) string
	str = func(x interface{}) string {
		switch y := x.(type) {
		case string:
			return y
		case []interface{}:
			var ps []string
			for _, e := range y {
				ps = append(ps, str(e))
			}
			return "(" + strings.Join(ps, " ") + ")"
		}
		return ""
	}
	for i < len(toks) {
		x := parse()
		l, ok := x.([]interface{})
		if !ok || len(l) < 3 {
			continue
		}
		head, _ := l[0].(string)
		name, _ := l[1].(string)
		switch head {
		case "define-fun", "define-fun-rec":
			if len(l) < 4 {
				continue
			}
			params, _ := l[2].([]interface{})
			var args []string
			for _, p := range params {
				pl, _ := p.([]interface{})
				if len(pl) == 2 {
					args = append(args, str(pl[1]))
				}
			}
			v.smtFuncs[name] = smtSig{args: args, ret: str(l[3])}
		case "declare-fun":
			if len(l) < 4 {
				continue
			}
			params, _ := l[2].([]interface{})
			var args []string
			for _, p := range params {
				args = append(args, str(p))
			}
			v.smtFuncs[name] = smtSig{args: args, ret: str(l[3])}
		case "declare-const":
			v.smtFuncs[name] = smtSig{ret: str(l[2])}
		}
	}
}

func sexprTokens(text string) []string {
	var toks []string
	i := 0
	for i < len(text) {
		c := text[i]
		switch {
		case c == ';':
			for i < len(text) && text[i] != '\n' {
				i++
			}
		case c == '(' || c == ')':
			toks = append(toks, string(c))
			i++
		case c == ' ' || c == '\n' || c == '\t' || c == '\r':
			i++
		case c == '|':
			j := i + 1
			for j < len(text) && text[j] != '|' {
				j++
			}
			toks = append(toks, text[i:j+1])
			i = j + 1
		case c == '"':
			j := i + 1
			for j < len(text) && text[j] != '"' {
				j++
			}
			toks = append(toks, text[i:j+1])
			i = j + 1
		default:
			j := i
			for j < len(text) && !strings.ContainsRune("() \n\t\r;", rune(text[j])) {
				j++
			}
			toks = append(toks, text[i:j])
			i = j
		}
	}
	return toks
}

// checkGuardImpl: lock discipline (filled by decl lines).
func (v *Verifier) checkGuardImpl(fe *FE, st *State, loc *Loc, site, how string) {
	d, ok := v.C.Decls[loc.Base]
	if !ok {
		return
	}
	fe.guardOb(st, loc, d, site, how)
}
