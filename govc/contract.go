package main

// Contract files: comment-only Go files in /repo (build tag verif) whose
// `//@ ...` lines are parsed here, plus /verif/spec/*.gsl (same syntax, lines
// without the //@ prefix) holding the prelude (pred definitions) and the
// assumed contracts of dependencies (extern blocks).

import (
	"bufio"
	"fmt"
	"os"
	"path/filepath"
	"sort"
	"strconv"
	"strings"
)

type Clause struct {
	Kind string   // requires, ensures, ensures_always, invariant, decreases, assert, assume, after, before, lemma
	Tags []string // property ids; empty = inherit block props
	E    *Expr
	Var  string // for after/before/ghost: target
	Src  string
	File string
	Line int
	Loop int // loop ordinal for loop clauses
	Name string
}

type OnCall struct {
	Pattern string // callee pattern: "(*base.RuleEntity).Execute", "go $1", "defer $1"
	Where   *Expr  // optional condition (e.g. recv == x) restricting the match
	Clauses []*Clause
	Line    int
	In      string // "" or closure suffix restricting where the hook applies
}

type Ghost struct {
	Name string
	Type string
	Init *Expr
	Line int
}

type FuncContract struct {
	Name            string // as written: "BinarySearch", "(*Gengine).Execute", "(*Gengine).ExecuteConcurrent$1"
	PkgPath         string // package the block belongs to (from file); for extern: from name
	Extern          bool
	Iface           bool
	Props           []string
	Arith           string // "int" or "bv"
	Requires        []*Clause
	Ensures         []*Clause
	EnsuresA        []*Clause // ensures_always
	NoPanic         *Clause
	AlsoProps       []string
	NoPanicOwn      *Clause
	MergeJoins      bool // merge symbolic states at join points instead of enumerating paths
	Modifies        []string
	ModSet          bool // a modifies clause was given
	Ghosts          []*Ghost
	Loops           map[int][]*Clause
	OnCalls         []*OnCall
	Assumes         []*Clause
	Pure            bool
	Fresh           bool   // extern: result is a freshly allocated reference
	PanicsUnl       *Expr  // extern: panics unless this holds
	Task            string // closure run by `go`: expression naming the WaitGroup it joins ("" if none)
	IsTask          bool
	PanicSafe       bool                 // if the function panics, no pre-existing state has been modified (checked: writes to pre-existing state are the last thing it does)
	EnsuresT        []*Clause            // trusted postconditions: assumed by callers, not proved here (listed in the evidence)
	Recoverer       bool                 // a deferred closure that calls recover() and thereby stops a panic
	Recovers        bool                 // declares: installs a recovering defer before any panicking instruction (checked structurally)
	Hints           map[string][]*Clause // "call:<pattern>" -> lemma clauses asserted+assumed before that call
	File            string
	Line            int
	Trusted         string // reason, if the block is assumed rather than verified
	MayPanic        bool   // extern: may panic (arbitrary user code)
	Returns         *Expr  // pure closure: the expression it returns (checked as ensures result == e)
	Guards          [][2]*Expr
	GuardFields     []string
	GuardFieldLocks []*Expr
	GuardSrc        []string
	LoopWritesWhole []string
	LoopWrites      []*Expr  // pre-existing maps/arrays that loops of this function may write (excluded from row preservation)
	Entry           []string // entry assumptions justified by meta-arguments (e.g. nolocks)
}

type PredDef struct {
	Name   string
	Params []QVar
	Body   *Expr
	File   string
	Line   int
}

type Contracts struct {
	Funcs      map[string]*FuncContract // key: pkgpath + "." + Name  (for methods: pkgpath.(*T).M)
	Preds      map[string]*PredDef
	Globals    []*Clause // global assumptions (axioms), listed in trusted base
	Files      []string
	Decls      map[string]string // pkgpath.Type.field -> declaration (guarded_by L / immutable / owner)
	DeclsRaw   map[string]string
	Frames     map[string][]string
	Templates  map[string]*Template
	LockInvs   map[string]*Clause
	GhostAttrs map[string][2]string
}

type Template struct {
	Params []string
	Lines  []string
}

func NewContracts() *Contracts {
	return &Contracts{Funcs: map[string]*FuncContract{}, Preds: map[string]*PredDef{}, Decls: map[string]string{}, Frames: map[string][]string{}, Templates: map[string]*Template{}, LockInvs: map[string]*Clause{}, GhostAttrs: map[string][2]string{}}
}

func parseTags(s string) ([]string, string) {
	s = strings.TrimSpace(s)
	if strings.HasPrefix(s, "[") {
		end := strings.Index(s, "]")
		if end > 0 {
			inner := s[1:end]
			ok := true
			var tags []string
			for _, t := range strings.Split(inner, ",") {
				t = strings.TrimSpace(t)
				if len(t) < 3 || t[0] != 'C' {
					ok = false
					break
				}
				if _, err := strconv.Atoi(t[1:]); err != nil {
					ok = false
					break
				}
				tags = append(tags, t)
			}
			if ok {
				return tags, strings.TrimSpace(s[end+1:])
			}
		}
	}
	return nil, s
}

func splitName(s string) (string, string) {
	// "label: expr" optional label (identifier followed by ':' not '::' or ':=')
	for i := 0; i < len(s); i++ {
		c := s[i]
		if c == ':' {
			if i+1 < len(s) && (s[i+1] == ':' || s[i+1] == '=') {
				return "", s
			}
			lab := strings.TrimSpace(s[:i])
			if lab != "" && !strings.ContainsAny(lab, " ()[]<>=!&|+-*/.,\"") {
				return lab, strings.TrimSpace(s[i+1:])
			}
			return "", s
		}
		if !(c == '_' || c == '-' || (c >= 'a' && c <= 'z') || (c >= 'A' && c <= 'Z') || (c >= '0' && c <= '9')) {
			return "", s
		}
	}
	return "", s
}

func (cs *Contracts) mkClause(kind, rest, file string, line int) (*Clause, error) {
	tags, rest := parseTags(rest)
	name, rest := splitName(rest)
	e, err := ParseExpr(rest)
	if err != nil {
		return nil, fmt.Errorf("%s:%d: %v", file, line, err)
	}
	return &Clause{Kind: kind, Tags: tags, E: e, Src: rest, File: file, Line: line, Name: name}, nil
}

// LoadFile parses one contract file. prefix is "//@" for Go files, "" for .gsl.
func (cs *Contracts) LoadFile(path, pkgPath string) error {
	f, err := os.Open(path)
	if err != nil {
		return err
	}
	defer f.Close()
	cs.Files = append(cs.Files, path)
	isGo := strings.HasSuffix(path, ".go")
	sc := bufio.NewScanner(f)
	sc.Buffer(make([]byte, 1<<20), 1<<20)
	var cur *FuncContract
	var curOn *OnCall
	var curTmpl *Template
	lineNo := 0
	var pending string
	pendingLine := 0
	var flushFn func(raw string, ln int) error
	flush := func(raw string, ln int) error {
		line := strings.TrimSpace(raw)
		if line == "" {
			return nil
		}
		// strip trailing comment " // ..."
		if i := strings.Index(line, " // "); i >= 0 {
			line = strings.TrimSpace(line[:i])
		}
		if line == "" || strings.HasPrefix(line, "//") {
			return nil
		}
		word := line
		rest := ""
		if i := strings.IndexAny(line, " \t"); i >= 0 {
			word = line[:i]
			rest = strings.TrimSpace(line[i+1:])
		}
		if curTmpl != nil {
			if word == "endtemplate" {
				curTmpl = nil
				return nil
			}
			curTmpl.Lines = append(curTmpl.Lines, line)
			return nil
		}
		if word == "template" {
			lp := strings.Index(rest, "(")
			if lp < 0 || !strings.HasSuffix(rest, ")") {
				return fmt.Errorf("%s:%d: bad template head", path, ln)
			}
			t := &Template{}
			for _, p := range strings.Split(rest[lp+1:len(rest)-1], ",") {
				if p = strings.TrimSpace(p); p != "" {
					t.Params = append(t.Params, p)
				}
			}
			cs.Templates[strings.TrimSpace(rest[:lp])] = t
			curTmpl = t
			return nil
		}
		if word == "use" {
			lp := strings.Index(rest, "(")
			if lp < 0 || !strings.HasSuffix(rest, ")") {
				return fmt.Errorf("%s:%d: bad use", path, ln)
			}
			t, ok := cs.Templates[strings.TrimSpace(rest[:lp])]
			if !ok {
				return fmt.Errorf("%s:%d: unknown template %q", path, ln, rest[:lp])
			}
			args := splitTop(rest[lp+1 : len(rest)-1])
			if len(args) == 1 && strings.TrimSpace(args[0]) == "" {
				args = nil
			}
			if len(args) != len(t.Params) {
				return fmt.Errorf("%s:%d: template %s expects %d args, got %d", path, ln, rest[:lp], len(t.Params), len(args))
			}
			for _, tl := range t.Lines {
				tl = substParams(tl, t.Params, args)
				if err := flushFn(tl, ln); err != nil {
					return err
				}
			}
			return nil
		}
		switch word {
		case "func", "extern", "iface":
			cur = &FuncContract{Name: rest, PkgPath: pkgPath, Loops: map[int][]*Clause{}, Arith: "int", File: path, Line: ln, Hints: map[string][]*Clause{}}
			curOn = nil
			key := pkgPath + "." + rest
			if word == "extern" || word == "iface" {
				cur.Extern = word == "extern"
				cur.Iface = word == "iface"
				cur.PkgPath = ""
				key = rest
			}
			if _, dup := cs.Funcs[key]; dup {
				return fmt.Errorf("%s:%d: duplicate contract block for %s", path, ln, key)
			}
			cs.Funcs[key] = cur
			return nil
		case "pred":
			// pred name(x T, y T) := expr
			i := strings.Index(rest, ":=")
			if i < 0 {
				return fmt.Errorf("%s:%d: pred needs :=", path, ln)
			}
			head := strings.TrimSpace(rest[:i])
			body := strings.TrimSpace(rest[i+2:])
			lp := strings.Index(head, "(")
			if lp < 0 || !strings.HasSuffix(head, ")") {
				return fmt.Errorf("%s:%d: bad pred head", path, ln)
			}
			pd := &PredDef{Name: strings.TrimSpace(head[:lp]), File: path, Line: ln}
			ps := strings.TrimSpace(head[lp+1 : len(head)-1])
			if ps != "" {
				for _, p := range strings.Split(ps, ",") {
					fs := strings.Fields(strings.TrimSpace(p))
					qv := QVar{Name: fs[0]}
					if len(fs) > 1 {
						qv.Type = strings.Join(fs[1:], " ")
					}
					pd.Params = append(pd.Params, qv)
				}
			}
			e, err := ParseExpr(body)
			if err != nil {
				return fmt.Errorf("%s:%d: %v", path, ln, err)
			}
			pd.Body = e
			cs.Preds[pd.Name] = pd
			cur = nil
			return nil
		case "ghostattr":
			// ghostattr pkg.Type name = int : initial value of a ghost attribute of freshly allocated objects
			fs := strings.Fields(rest)
			if len(fs) != 4 || fs[2] != "=" {
				return fmt.Errorf("%s:%d: ghostattr T name = value", path, ln)
			}
			k := fs[0]
			if !strings.Contains(k, "/") && pkgPath != "" {
				k = pkgPath + "." + k
			}
			cs.GhostAttrs[k] = [2]string{fs[1], fs[3]}
			return nil
		case "lockinv":
			// lockinv pkg.Type.lockfield := pred-expression over `self` (the owner object)
			i := strings.Index(rest, ":=")
			if i < 0 {
				return fmt.Errorf("%s:%d: lockinv needs :=", path, ln)
			}
			k := strings.TrimSpace(rest[:i])
			if !strings.Contains(k, "/") && pkgPath != "" {
				k = pkgPath + "." + k
			}
			e, err := ParseExpr(strings.TrimSpace(rest[i+2:]))
			if err != nil {
				return fmt.Errorf("%s:%d: %v", path, ln, err)
			}
			cs.LockInvs[k] = &Clause{Kind: "lockinv", E: e, Src: rest, File: path, Line: ln}
			return nil
		case "frameset":
			i := strings.Index(rest, ":=")
			if i < 0 {
				return fmt.Errorf("%s:%d: frameset needs :=", path, ln)
			}
			var items []string
			for _, it := range splitTop(rest[i+2:]) {
				if it = strings.TrimSpace(it); it != "" {
					items = append(items, it)
				}
			}
			cs.Frames[strings.TrimSpace(rest[:i])] = items
			return nil
		case "axiom":
			c, err := cs.mkClause("axiom", rest, path, ln)
			if err != nil {
				return err
			}
			cs.Globals = append(cs.Globals, c)
			return nil
		case "decl":
			// decl engine.GenginePool.clear guarded_by updateLock
			fs := strings.Fields(rest)
			if len(fs) < 2 {
				return fmt.Errorf("%s:%d: bad decl", path, ln)
			}
			k := fs[0]
			if !strings.Contains(k, "/") && pkgPath != "" {
				k = pkgPath + "." + k
			}
			cs.Decls[k] = strings.Join(fs[1:], " ")
			return nil
		}
		if cur == nil {
			return fmt.Errorf("%s:%d: clause %q outside a func block", path, ln, word)
		}
		switch word {
		case "props":
			cur.Props = strings.Fields(rest)
			curOn = nil
		case "alsoprops":
			// properties this function serves only through clauses tagged with them explicitly
			cur.AlsoProps = strings.Fields(rest)
			curOn = nil
		case "arith":
			cur.Arith = rest
		case "pure":
			cur.Pure = true
		case "fresh":
			cur.Fresh = true
		case "maypanic":
			cur.MayPanic = true
		case "recovers":
			cur.Recovers = true
		case "recoverer":
			cur.Recoverer = true
		case "panicsafe":
			cur.PanicSafe = true
		case "ensures_trusted":
			cl, err := cs.mkClause("ensures_trusted", rest, path, ln)
			if err != nil {
				return err
			}
			cur.EnsuresT = append(cur.EnsuresT, cl)
		case "guard":
			// guard <expr> by <lockexpr>: accesses to the object/cell/map <expr> need <lockexpr> held (C19)
			i := strings.Index(rest, " by ")
			if i < 0 {
				return fmt.Errorf("%s:%d: guard X by L", path, ln)
			}
			e1, err := ParseExpr(strings.TrimSpace(rest[:i]))
			if err != nil {
				return fmt.Errorf("%s:%d: %v", path, ln, err)
			}
			e2, err := ParseExpr(strings.TrimSpace(rest[i+4:]))
			if err != nil {
				return fmt.Errorf("%s:%d: %v", path, ln, err)
			}
			cur.Guards = append(cur.Guards, [2]*Expr{e1, e2})
			cur.GuardSrc = append(cur.GuardSrc, rest)
		case "guardfield":
			// guardfield pkg.Type.field by <lockexpr>: in this function every access to that field (of any
			// object not allocated here) needs the lock
			i := strings.Index(rest, " by ")
			if i < 0 {
				return fmt.Errorf("%s:%d: guardfield T.f by L", path, ln)
			}
			e2, err := ParseExpr(strings.TrimSpace(rest[i+4:]))
			if err != nil {
				return fmt.Errorf("%s:%d: %v", path, ln, err)
			}
			cur.GuardFields = append(cur.GuardFields, strings.TrimSpace(rest[:i]))
			cur.GuardFieldLocks = append(cur.GuardFieldLocks, e2)
		case "loopwrites":
			for _, it := range splitTop(rest) {
				it = strings.TrimSpace(it)
				if strings.HasPrefix(it, "mapsof(") || strings.HasPrefix(it, "elemsof(") {
					cur.LoopWritesWhole = append(cur.LoopWritesWhole, it)
					continue
				}
				e, err := ParseExpr(it)
				if err != nil {
					return fmt.Errorf("%s:%d: %v", path, ln, err)
				}
				cur.LoopWrites = append(cur.LoopWrites, e)
			}
		case "entry":
			cur.Entry = append(cur.Entry, strings.Fields(rest)...)
		case "mergejoins":
			cur.MergeJoins = true
		case "trusted":
			cur.Trusted = rest
		case "returns":
			e, err := ParseExpr(rest)
			if err != nil {
				return fmt.Errorf("%s:%d: %v", path, ln, err)
			}
			cur.Returns = e
		case "task":
			cur.IsTask = true
			cur.Task = strings.TrimSpace(strings.TrimPrefix(rest, "joins"))
		case "requires", "ensures", "ensures_always", "assume":
			c, err := cs.mkClause(word, rest, path, ln)
			if err != nil {
				return err
			}
			if curOn != nil && word == "assume" {
				curOn.Clauses = append(curOn.Clauses, c)
				break
			}
			curOn = nil
			switch word {
			case "requires":
				cur.Requires = append(cur.Requires, c)
			case "ensures":
				cur.Ensures = append(cur.Ensures, c)
			case "ensures_always":
				cur.EnsuresA = append(cur.EnsuresA, c)
			case "assume":
				cur.Assumes = append(cur.Assumes, c)
			}
		case "panics_unless":
			e, err := ParseExpr(rest)
			if err != nil {
				return fmt.Errorf("%s:%d: %v", path, ln, err)
			}
			cur.PanicsUnl = e
		case "nopanic":
			// `nopanic own`: this function's own operations never panic; its callees may (callers must not rely on it)
			if f := strings.Fields(rest); len(f) > 0 && f[0] == "own" {
				r2 := strings.TrimSpace(strings.TrimPrefix(strings.TrimSpace(rest), "own"))
				cl := &Clause{Kind: "nopanic", File: path, Line: ln, Src: rest}
				// `nopanic own when EXPR`: panic freedom is only claimed for entry states satisfying EXPR
				if strings.HasPrefix(r2, "when ") {
					e, err := ParseExpr(strings.TrimSpace(r2[5:]))
					if err != nil {
						return fmt.Errorf("%s:%d: %v", path, ln, err)
					}
					cl.E = e
				} else {
					cl.Tags, _ = parseTags(r2)
				}
				cur.NoPanicOwn = cl
				curOn = nil
				break
			}
			tags, _ := parseTags(rest)
			cur.NoPanic = &Clause{Kind: "nopanic", Tags: tags, File: path, Line: ln}
			curOn = nil
		case "modifies":
			cur.ModSet = true
			curOn = nil
			for _, it := range splitTop(rest) {
				it = strings.TrimSpace(it)
				if it != "" && it != "nothing" {
					cur.Modifies = append(cur.Modifies, it)
				}
			}
		case "ghost":
			// ghost name type = expr   |  ghost name = expr
			curOn = nil
			i := strings.Index(rest, "=")
			if i < 0 {
				return fmt.Errorf("%s:%d: ghost needs '='", path, ln)
			}
			head := strings.Fields(rest[:i])
			e, err := ParseExpr(strings.TrimSpace(rest[i+1:]))
			if err != nil {
				return fmt.Errorf("%s:%d: %v", path, ln, err)
			}
			g := &Ghost{Name: head[0], Init: e, Line: ln}
			if len(head) > 1 {
				g.Type = head[1]
			}
			cur.Ghosts = append(cur.Ghosts, g)
		case "loop":
			curOn = nil
			fs := strings.SplitN(rest, " ", 3)
			if len(fs) < 3 {
				return fmt.Errorf("%s:%d: loop K invariant|decreases EXPR", path, ln)
			}
			k, err := strconv.Atoi(fs[0])
			if err != nil {
				return fmt.Errorf("%s:%d: bad loop ordinal", path, ln)
			}
			c, err := cs.mkClause(fs[1], fs[2], path, ln)
			if err != nil {
				return err
			}
			c.Loop = k
			cur.Loops[k] = append(cur.Loops[k], c)
		case "oncall":
			oc := &OnCall{Line: ln}
			pat := rest
			if i := strings.Index(pat, " where "); i >= 0 {
				e, err := ParseExpr(strings.TrimSpace(pat[i+7:]))
				if err != nil {
					return fmt.Errorf("%s:%d: %v", path, ln, err)
				}
				oc.Where = e
				pat = pat[:i]
			}
			oc.Pattern = strings.TrimSpace(pat)
			cur.OnCalls = append(cur.OnCalls, oc)
			curOn = oc
		case "assert", "lemma":
			if curOn == nil {
				return fmt.Errorf("%s:%d: %s outside oncall", path, ln, word)
			}
			c, err := cs.mkClause(word, rest, path, ln)
			if err != nil {
				return err
			}
			curOn.Clauses = append(curOn.Clauses, c)
		case "after", "before":
			if curOn == nil {
				return fmt.Errorf("%s:%d: %s outside oncall", path, ln, word)
			}
			i := strings.Index(rest, ":=")
			if i < 0 {
				return fmt.Errorf("%s:%d: %s needs :=", path, ln, word)
			}
			e, err := ParseExpr(strings.TrimSpace(rest[i+2:]))
			if err != nil {
				return fmt.Errorf("%s:%d: %v", path, ln, err)
			}
			curOn.Clauses = append(curOn.Clauses, &Clause{Kind: word, Var: strings.TrimSpace(rest[:i]), E: e, Src: rest, File: path, Line: ln})
		default:
			return fmt.Errorf("%s:%d: unknown clause %q", path, ln, word)
		}
		return nil
	}
	flushFn = flush
	for sc.Scan() {
		lineNo++
		raw := sc.Text()
		t := strings.TrimSpace(raw)
		if isGo {
			if !strings.HasPrefix(t, "//@") {
				continue
			}
			t = strings.TrimSpace(strings.TrimPrefix(t, "//@"))
		} else if strings.HasPrefix(t, "#") {
			continue
		}
		// continuation lines start with '|'
		if strings.HasPrefix(t, "|") {
			pending += " " + strings.TrimSpace(t[1:])
			continue
		}
		if pending != "" {
			if err := flush(pending, pendingLine); err != nil {
				return err
			}
		}
		pending = t
		pendingLine = lineNo
	}
	if pending != "" {
		if err := flush(pending, pendingLine); err != nil {
			return err
		}
	}
	return sc.Err()
}

// splitTop splits on commas not nested in parentheses/brackets.
func splitTop(s string) []string {
	var out []string
	depth := 0
	start := 0
	for i, c := range s {
		switch c {
		case '(', '[':
			depth++
		case ')', ']':
			depth--
		case ',':
			if depth == 0 {
				out = append(out, s[start:i])
				start = i + 1
			}
		}
	}
	out = append(out, s[start:])
	return out
}

// LoadAll loads contract files of the repo packages and the spec directory.
func (cs *Contracts) LoadAll(repo, specDir string, pkgDirs map[string]string) error {
	specs, _ := filepath.Glob(filepath.Join(specDir, "*.gsl"))
	sort.Strings(specs)
	for _, m := range specs {
		if err := cs.LoadFile(m, ""); err != nil {
			return err
		}
	}
	var keys []string
	for p := range pkgDirs {
		keys = append(keys, p)
	}
	sort.Strings(keys)
	for _, pkgPath := range keys {
		dir := pkgDirs[pkgPath]
		matches, _ := filepath.Glob(filepath.Join(dir, "zz_contracts*_verif.go"))
		sort.Strings(matches)
		for _, m := range matches {
			if err := cs.LoadFile(m, pkgPath); err != nil {
				return err
			}
		}
	}
	return nil
}

// substParams replaces $NAME (whole identifiers) by the corresponding argument.
func substParams(line string, params, args []string) string {
	var sb strings.Builder
	i := 0
	for i < len(line) {
		if line[i] == '$' {
			j := i + 1
			for j < len(line) && (line[j] == '_' || (line[j] >= 'a' && line[j] <= 'z') || (line[j] >= 'A' && line[j] <= 'Z') || (line[j] >= '0' && line[j] <= '9')) {
				j++
			}
			name := line[i+1 : j]
			done := false
			for k, p := range params {
				if p == name {
					a := strings.TrimSpace(args[k])
					if strings.ContainsAny(a, "&|=<>!+-*/") {
						a = "(" + a + ")"
					}
					sb.WriteString(a)
					done = true
					break
				}
			}
			if done {
				i = j
				continue
			}
		}
		sb.WriteByte(line[i])
		i++
	}
	return sb.String()
}
