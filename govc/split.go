package main

import "strings"

// Goal splitting: a goal that the solvers do not decide as a whole is re-tried conjunct by conjunct
// ((and ..), under implications and universal quantifiers). All pieces must be discharged.

type sx struct {
	atom string
	kids []*sx
}

func parseSx(s string) *sx {
	toks := sexprTokens(s)
	i := 0
	var p func() *sx
	p = func() *sx {
		if i >= len(toks) {
			return &sx{atom: ""}
		}
		t := toks[i]
		i++
		if t == "(" {
			n := &sx{}
			for i < len(toks) && toks[i] != ")" {
				n.kids = append(n.kids, p())
			}
			i++
			if n.kids == nil {
				n.kids = []*sx{}
			}
			return n
		}
		return &sx{atom: t}
	}
	return p()
}

func (n *sx) String() string {
	if n.kids == nil {
		return n.atom
	}
	var ps []string
	for _, k := range n.kids {
		ps = append(ps, k.String())
	}
	return "(" + strings.Join(ps, " ") + ")"
}

func (n *sx) head() string {
	if n.kids != nil && len(n.kids) > 0 && n.kids[0].kids == nil {
		return n.kids[0].atom
	}
	return ""
}

func splitGoalSx(n *sx, depth int) []*sx {
	if depth > 60 {
		return []*sx{n}
	}
	switch n.head() {
	case "and":
		var out []*sx
		for _, k := range n.kids[1:] {
			out = append(out, splitGoalSx(k, depth+1)...)
		}
		return out
	case "=>":
		if len(n.kids) == 3 {
			var out []*sx
			for _, c := range splitGoalSx(n.kids[2], depth+1) {
				out = append(out, &sx{kids: []*sx{{atom: "=>"}, n.kids[1], c}})
			}
			return out
		}
	case "forall":
		if len(n.kids) == 3 {
			body := n.kids[2]
			if body.head() == "!" && len(body.kids) >= 2 {
				body = body.kids[1]
			}
			pieces := splitGoalSx(body, depth+1)
			if len(pieces) <= 1 {
				return []*sx{n}
			}
			var out []*sx
			for _, c := range pieces {
				out = append(out, &sx{kids: []*sx{{atom: "forall"}, n.kids[1], c}})
			}
			return out
		}
	}
	return []*sx{n}
}

func splitGoal(goal string) []string {
	pieces := splitGoalSx(parseSx(goal), 0)
	if len(pieces) <= 1 || len(pieces) > 300 {
		return nil
	}
	var out []string
	for _, p := range pieces {
		out = append(out, p.String())
	}
	return out
}
