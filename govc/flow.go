package main

import (
	"fmt"
	"go/types"
	"strings"

	"golang.org/x/tools/go/ssa"
)

// ---------------------------------------------------------------------------
// defer / return / panic

func (fe *FE) execDefer(st *State, x *ssa.Defer, site string) bool {
	com := x.Common()
	d := deferred{call: x, instr: x}
	if !com.IsInvoke() {
		if sc := com.StaticCallee(); sc != nil {
			switch sc.String() {
			case "(*sync.Mutex).Unlock", "(*sync.RWMutex).Unlock":
				m, _ := fe.asRef(fe.valOf(st, com.Args[0]))
				d.native = "unlock"
				d.ref = m
				st.defers = append(st.defers, d)
				return true
			}
		}
		d.fnVal = fe.valOf(st, com.Value)
	}
	for _, a := range com.Args {
		d.args = append(d.args, fe.valOf(st, a))
	}
	st.defers = append(st.defers, d)
	return true
}

// structuralRecover: the function registers, as its first effectful action, a deferred
// closure whose contract says it recovers. Then no panic escapes the function.
func (fe *FE) structuralRecover() bool {
	if !fe.C.Recovers {
		return false
	}
	return fe.recoverChecked
}

// checkStructuralRecover verifies the `recovers` declaration syntactically on the SSA:
// checkCapturedLoopVars: side condition of the fork/join meta-argument FJ. A `go` statement is verified as if the task
// ran at the fork; that is only sound if the variables the closure captures by reference are not written by the parent
// while the task may still run. The typical violation is a goroutine capturing a loop variable that is shared by all
// iterations (per-loop semantics before Go 1.22, or a variable declared outside the loop): a cell allocated OUTSIDE a
// loop, stored to INSIDE that loop, and bound by a closure started with `go` inside the same loop.
func (fe *FE) checkCapturedLoopVars() {
	for _, h := range fe.loopOrd {
		li := fe.loops[h]
		for b := range li.body {
			for _, ins := range b.Instrs {
				g, ok := ins.(*ssa.Go)
				if !ok {
					continue
				}
				mc, ok := g.Call.Value.(*ssa.MakeClosure)
				if !ok {
					continue
				}
				for _, bd := range mc.Bindings {
					al, ok := bd.(*ssa.Alloc)
					if !ok || li.body[al.Block()] {
						continue // not a cell, or a fresh cell per iteration
					}
					for _, ref := range *al.Referrers() {
						if st, ok := ref.(*ssa.Store); ok && st.Addr == al && li.body[st.Block()] {
							pos := fe.Fn.Prog.Fset.Position(g.Pos())
							ob := &Obligation{Name: fmt.Sprintf("%s:race:captured-loop-variable.%s@%s:%d", fe.FnName, al.Comment, shortFile(pos.Filename), pos.Line), Func: fe.FnName, Kind: "race", Tags: fe.C.Props, Goal: "false", Result: "failed",
								Detail: fmt.Sprintf("the goroutine started here captures variable %q by reference; the variable is declared outside the loop and assigned in every iteration, so the task may observe a later iteration's value (fork/join side condition)", al.Comment),
								Src:    "captured variables of a forked task are not written by the parent before the join"}
							fe.Obs = append(fe.Obs, ob)
							break
						}
					}
				}
			}
		}
	}
}

// entry block: only allocs/stores of named results/params, MakeClosure, then Defer of a closure
// that calls recover() unconditionally in its entry block.
func (fe *FE) checkStructuralRecover() {
	if !fe.C.Recovers {
		return
	}
	ok := false
	var why string
	entry := fe.Fn.Blocks[0]
	for _, ins := range entry.Instrs {
		switch x := ins.(type) {
		case *ssa.Alloc, *ssa.Store, *ssa.MakeClosure, *ssa.DebugRef:
			continue
		case *ssa.Defer:
			if mc, isMC := x.Call.Value.(*ssa.MakeClosure); isMC {
				cl := mc.Fn.(*ssa.Function)
				if closureRecovers(cl) {
					ok = true
				} else {
					why = "deferred closure does not call recover() unconditionally in its entry block"
				}
			} else {
				why = "first defer is not a closure"
			}
		default:
			why = fmt.Sprintf("instruction %T precedes the recovering defer", ins)
		}
		break
	}
	if fe.Fn.Recover == nil {
		ok = false
		why = "function has no recover block"
	}
	fe.recoverChecked = ok
	name := fe.FnName + ":recovers:structural"
	ob := &Obligation{Name: name, Func: fe.FnName, Kind: "recovers", Tags: fe.tagsOf(fe.C.NoPanic), Goal: "true", Src: "a recovering defer is registered before any instruction that can panic"}
	if ok {
		ob.Result = "unsat"
		ob.Solver = "structural"
	} else {
		ob.Result = "failed"
		ob.Detail = why
	}
	fe.Obs = append(fe.Obs, ob)
}

func closureRecovers(cl *ssa.Function) bool {
	if len(cl.Blocks) == 0 {
		return false
	}
	for _, ins := range cl.Blocks[0].Instrs {
		if c, ok := ins.(*ssa.Call); ok {
			if b, ok := c.Call.Value.(*ssa.Builtin); ok && b.Name() == "recover" {
				return true
			}
			return false
		}
		switch ins.(type) {
		case *ssa.DebugRef, *ssa.Alloc, *ssa.UnOp, *ssa.Store, *ssa.FieldAddr:
			continue
		}
	}
	return false
}

// runDefers executes deferred calls (LIFO) on the normal path.
func (fe *FE) runDefers(st *State, site string) bool {
	for i := len(st.defers) - 1; i >= 0; i-- {
		d := st.defers[i]
		if !fe.runDeferred(st, d, site, false) {
			return false
		}
	}
	st.defers = nil
	return true
}

func (fe *FE) runDeferred(st *State, d deferred, site string, panicking bool) bool {
	if d.native == "unlock" {
		held := sel(fe.heapTerm(st, "G_held", arraySort([]string{SInt}, SBool)), d.ref)
		fe.addOb(st, "lock", "held-at-unlock@defer."+site, nil, held, "deferred Unlock of a mutex that is not held is a fatal error")
		{
			dci := &callInfo{display: []string{"(*sync.Mutex).Unlock", "(*sync.RWMutex).Unlock"}}
			rv := scalar(d.ref, SInt, nil)
			dci.recv = &rv
			fe.runHooks(st, fe.matchHooks(dci, "call"), dci, "before", nil, nil, "defer."+site)
		}
		fe.onRelease(st, d.ref, "defer."+site)
		fe.ghostArrSet(st, "G_held", d.ref, "false", SBool)
		return true
	}
	com := d.instr.Common()
	ci := &callInfo{sig: com.Signature()}
	var callee *ssa.Function
	switch d.fnVal.Kind {
	case VFunc:
		callee = d.fnVal.Fn
	case VClosure:
		callee = d.fnVal.Fn
		ci.binds = map[string]Val{}
		for i, fv := range callee.FreeVars {
			if i < len(d.fnVal.Binds) {
				ci.binds[fv.Name()] = d.fnVal.Binds[i]
			}
		}
	}
	if callee == nil {
		fe.errorf("deferred call of unknown function")
		return false
	}
	ci.fn = callee
	ci.con = fe.V.contractFor(callee)
	ci.display = fe.V.displayNames(callee, fe.Fn)
	ci.args = d.args
	for i := 0; i < callee.Signature.Params().Len(); i++ {
		ci.names = append(ci.names, callee.Signature.Params().At(i).Name())
	}
	if callee.Signature.Recv() != nil {
		ci.names = append([]string{callee.Signature.Recv().Name()}, ci.names...)
		if len(d.args) > 0 {
			r := d.args[0]
			ci.recv = &r
		}
	}
	// the deferred closure observes whether we are panicking
	if panicking {
		st.ghosts["$panicking"] = scalar("true", SBool, nil)
	} else {
		st.ghosts["$panicking"] = scalar("false", SBool, nil)
	}
	return fe.applyContract(st, d.instr, ci, nil, "defer."+site, "defer")
}

// doReturn: normal exit (possibly after recovery).
func (fe *FE) doReturn(st *State, results []Val, recovered bool) {
	fe.paths++
	ctx := fe.ownCtx(st)
	ctx.result = results
	if fe.C.Returns != nil && len(results) == 1 {
		ctx.what = "returns"
		rv := ctx.eval(fe.C.Returns)
		fe.addOb(st, "returns", "value", nil, ctx.eqVals(results[0], rv), "the function returns exactly "+fe.C.Returns.String())
	}
	for i, e := range fe.C.Ensures {
		fe.curPos = fmt.Sprintf("%s:%d", shortFile(e.File), e.Line)
		fe.assertExprNoAssume(st, ctx, e.E, "ensures", clauseLabel(e, i), fe.tagsOf(e), e.Src)
	}
	for i, e := range fe.C.EnsuresA {
		fe.curPos = fmt.Sprintf("%s:%d", shortFile(e.File), e.Line)
		fe.assertExprNoAssume(st, ctx, e.E, "ensures_always", clauseLabel(e, i), fe.tagsOf(e), e.Src)
	}
	fe.exitChecks(st, "return")
}

func (fe *FE) assertExprNoAssume(st *State, c *Ctx, e *Expr, kind, label string, tags []string, src string) {
	c.what = kind + " " + label
	c.side = nil
	t := c.boolTerm(c.eval(e))
	for _, s := range c.side {
		st.assume(s)
	}
	fe.addOb(st, kind, label, tags, t, src)
}

// exitChecks: lock balance and joined tasks, on every exit.
func (fe *FE) exitChecks(st *State, how string) {
	if cur, ok := st.heap["G_held"]; ok && cur != "G_held!0" && cur != "?" && len(st.locksTouched) > 0 {
		var ts []string
		for _, m := range st.locksTouched {
			ts = append(ts, eq(sel(cur, m), sel("G_held!0", m)))
		}
		fe.addOb(st, "lock", "balanced@"+how, nil, and(ts...), "every lock taken by this activation is released on this exit path")
	}
	if !fe.C.IsTask || true {
		for _, lt := range st.live {
			if lt.wg == "" {
				continue
			}
			// a task forked on a WaitGroup created here must have been joined
			fe.addOb(st, "wg", "tasks-joined@"+how, nil, "false", "a task forked on a WaitGroup is still live at function exit (no Wait joined it)")
			break
		}
	}
}

// doPanic: an instruction panicked on this path.
func (fe *FE) doPanic(st *State, what, kind, label string) {
	if kind != "" && fe.nopanic && !fe.structuralRecover() {
		fe.addOb(st, "safe", kind+"@"+label, fe.tagsOf(fe.C.NoPanic), "false", what)
	}
	// run deferred calls in panicking mode
	recovered := false
	for i := len(st.defers) - 1; i >= 0; i-- {
		d := st.defers[i]
		st.defers = st.defers[:i]
		if d.native == "" && d.fnVal.Fn != nil {
			if con := fe.V.contractFor(d.fnVal.Fn); con != nil && con.Recoverer {
				recovered = true
			}
		}
		if !fe.runDeferred(st, d, "panic", !recovered || true) {
			return
		}
		if recovered {
			break
		}
	}
	if recovered && fe.Fn.Recover != nil {
		st.path = append(st.path, "recovered")
		// remaining defers still run at the recover block's rundefers (none left normally)
		fe.runBlock(st, fe.Fn.Recover, nil)
		return
	}
	// exceptional exit
	fe.paths++
	ctx := fe.ownCtx(st)
	for i, e := range fe.C.EnsuresA {
		fe.curPos = fmt.Sprintf("%s:%d", shortFile(e.File), e.Line)
		fe.assertExprNoAssume(st, ctx, e.E, "ensures_always", clauseLabel(e, i)+"/panic", fe.tagsOf(e), e.Src)
	}
	fe.exitChecks(st, "panic")
}

// ---------------------------------------------------------------------------
// loop modification sets (static over-approximation)

func (fe *FE) loopMods(li *loopInfo) {
	fe.scanning = true
	defer func() { fe.scanning = false }()
	if li.modHeap == nil {
		li.modHeap = map[string]bool{}
	}
	add := func(base string, t types.Type) {
		cs := fe.components(t)
		if cs == nil {
			li.modHeap[base] = true
			return
		}
		for _, c := range cs {
			li.modHeap[base+c.suffix] = true
		}
	}
	addMap := func(mt *types.Map) {
		db, vb, lb := mapBases(mt)
		li.modHeap[db] = true
		li.modHeap[lb] = true
		add(vb, mt.Elem())
	}
	var addrBase func(v ssa.Value) (string, types.Type, bool)
	addrBase = func(v ssa.Value) (string, types.Type, bool) {
		switch a := v.(type) {
		case *ssa.FieldAddr:
			stt := derefType(a.X.Type())
			f := stt.Underlying().(*types.Struct).Field(a.Field)
			return fieldBase(stt, f.Name()), f.Type(), true
		case *ssa.IndexAddr:
			switch u := a.X.Type().Underlying().(type) {
			case *types.Slice:
				return elemBase(u.Elem()), u.Elem(), true
			case *types.Pointer:
				if at, ok := u.Elem().Underlying().(*types.Array); ok {
					return elemBase(at.Elem()), at.Elem(), true
				}
			}
		case *ssa.Alloc:
			et := derefType(a.Type())
			return cellBase(et), et, true
		case *ssa.Global:
			return "G_" + a.Pkg.Pkg.Name() + "_" + a.Name(), derefType(a.Type()), true
		case *ssa.FreeVar:
			et := derefType(a.Type())
			return cellBase(et), et, true
		case *ssa.Parameter:
			et := derefType(a.Type())
			if et != nil {
				return cellBase(et), et, true
			}
		case *ssa.Phi:
			et := derefType(a.Type())
			if et != nil {
				return cellBase(et), et, true
			}
		}
		return "", nil, false
	}
	scratch := func() *State {
		return &State{vals: map[ssa.Value]Val{}, heap: map[string]string{}, ghosts: map[string]Val{}, names: map[string]Val{}, open: map[*ssa.BasicBlock]bool{}, cnt: "cnt!entry", unstable: map[string]bool{}}
	}
	var scan func(ins ssa.Instruction, depth int)
	scan = func(ins ssa.Instruction, depth int) {
		switch x := ins.(type) {
		case *ssa.Store:
			base, t, ok := addrBase(x.Addr)
			if !ok {
				li.modAll = true
				return
			}
			add(base, t)
		case *ssa.MapUpdate:
			addMap(x.Map.Type().Underlying().(*types.Map))
		case *ssa.Alloc:
			et := derefType(x.Type())
			switch {
			case isStructType(et):
				fe.structFieldBases(et, add)
				if isNamed(et, "sync", "Mutex") || isNamed(et, "sync", "RWMutex") {
					li.modHeap["G_held"] = true
				}
				if isNamed(et, "sync", "WaitGroup") {
					li.modHeap["G_wg_added"] = true
					li.modHeap["G_wg_forked"] = true
					li.modHeap["G_wg_waited"] = true
				}
			case isArrayType(et):
				add(elemBase(et.Underlying().(*types.Array).Elem()), et.Underlying().(*types.Array).Elem())
			default:
				add(cellBase(et), et)
			}
		case *ssa.MakeSlice:
			et := x.Type().Underlying().(*types.Slice).Elem()
			add(elemBase(et), et)
		case *ssa.MakeMap:
			addMap(x.Type().Underlying().(*types.Map))
		case *ssa.Next:
			li.modGh["visited"] = true
			li.modGh["itercount"] = true
			li.modGh["lastkey"] = true
			if it, ok := x.Iter.(*ssa.Range); ok {
				li.modGh["$visited_"+it.Name()] = true
			}
		case ssa.CallInstruction:
			com := x.Common()
			if bi, ok := com.Value.(*ssa.Builtin); ok {
				switch bi.Name() {
				case "append":
					et := com.Args[0].Type().Underlying().(*types.Slice).Elem()
					add(elemBase(et), et)
					for _, oc := range fe.matchHooks(&callInfo{display: []string{"append", "append:" + shortPkgType(com.Args[0].Type())}}, "call") {
						for _, cl := range oc.Clauses {
							if cl.Kind == "after" || cl.Kind == "before" {
								li.modGh[cl.Var] = true
							}
						}
					}
				case "delete":
					addMap(com.Args[0].Type().Underlying().(*types.Map))
				}
				return
			}
			var con *FuncContract
			var callee *ssa.Function
			var display []string
			if com.IsInvoke() {
				tn := types.TypeString(com.Value.Type(), func(p *types.Package) string { return p.Path() })
				con = fe.V.C.Funcs[tn+"."+com.Method.Name()]
				if con == nil {
					con = fe.V.C.Funcs[shortPkgType(com.Value.Type())+"."+com.Method.Name()]
				}
				display = []string{tn + "." + com.Method.Name(), shortPkgType(com.Value.Type()) + "." + com.Method.Name()}
			} else {
				callee = com.StaticCallee()
				if callee == nil {
					if mc, ok := com.Value.(*ssa.MakeClosure); ok {
						callee = mc.Fn.(*ssa.Function)
					}
				}
				if callee != nil {
					switch callee.String() {
					case "(*sync.Mutex).Lock", "(*sync.Mutex).Unlock", "(*sync.RWMutex).Lock", "(*sync.RWMutex).Unlock":
						li.modHeap["G_held"] = true
						for _, oc := range fe.matchHooks(&callInfo{display: fe.V.displayNames(callee, fe.Fn)}, "call") {
							for _, cl := range oc.Clauses {
								if cl.Kind == "after" || cl.Kind == "before" {
									if lb := strings.Index(cl.Var, "["); lb > 0 {
										li.modHeap["G_"+strings.TrimSpace(cl.Var[:lb])] = true
									} else {
										li.modGh[cl.Var] = true
									}
								}
							}
						}
						// acquiring a lock with a monitor invariant re-reads the state it protects
						if fa, ok := com.Args[0].(*ssa.FieldAddr); ok {
							stt := derefType(fa.X.Type())
							fld := stt.Underlying().(*types.Struct).Field(fa.Field)
							if inv := fe.V.lockInv["sub_"+structName(stt)+"_"+fld.Name()]; inv != nil {
								for _, g := range inv.guarded {
									add(g.base, g.t)
									if sl, ok := g.t.Underlying().(*types.Slice); ok {
										add(elemBase(sl.Elem()), sl.Elem())
									}
								}
							}
						}
						return
					case "(*sync.WaitGroup).Add":
						li.modHeap["G_wg_added"] = true
					case "(*sync.WaitGroup).Done":
						li.modHeap["G_wg_done"] = true
					case "(*sync.WaitGroup).Wait":
						li.modHeap["G_wg_waited"] = true
					}
					con = fe.V.contractFor(callee)
					display = fe.V.displayNames(callee, fe.Fn)
				}
			}
			if _, isGo := ins.(*ssa.Go); isGo {
				li.modHeap["G_wg_forked"] = true
			}
			// ghost variables updated by matching hooks
			mode := "call"
			if _, isGo := ins.(*ssa.Go); isGo {
				mode = "go"
			} else if _, isD := ins.(*ssa.Defer); isD {
				mode = "defer"
			}
			for _, oc := range fe.matchHooks(&callInfo{display: display}, mode) {
				for _, cl := range oc.Clauses {
					if cl.Kind == "after" || cl.Kind == "before" {
						if lb := strings.Index(cl.Var, "["); lb > 0 {
							li.modHeap["G_"+strings.TrimSpace(cl.Var[:lb])] = true
						} else {
							li.modGh[cl.Var] = true
						}
					}
				}
			}
			if con == nil && callee != nil && depth < 3 && !com.IsInvoke() {
				if _, isCall := ins.(*ssa.Call); isCall && fe.inlinable(&State{}, callee) && len(fe.matchHooks(&callInfo{display: display}, "call")) == 0 {
					// a contract-less loop-free helper is executed in place: its effects are those of its instructions
					for _, cb := range callee.Blocks {
						for _, ci2 := range cb.Instrs {
							scan(ci2, depth+1)
						}
					}
					return
				}
			}
			if con == nil {
				if callee != nil {
					switch callee.String() {
					case "(*sync.WaitGroup).Add", "(*sync.WaitGroup).Done", "(*sync.WaitGroup).Wait":
						return
					}
				}
				li.modAll = true
				return
			}
			if !con.ModSet {
				if !(con.Pure || con.Extern || con.Iface) {
					li.modAll = true
				}
				return
			}
			// resolve items to heap names with a scratch evaluation
			sst := scratch()
			ci := &callInfo{fn: callee, con: con}
			if callee != nil {
				for _, p := range callee.Params {
					ci.names = append(ci.names, p.Name())
					ci.args = append(ci.args, fe.dummyVal(p.Type()))
				}
				ci.binds = map[string]Val{}
				for _, p := range callee.FreeVars {
					ci.binds[p.Name()] = fe.dummyVal(p.Type())
				}
			} else if com.IsInvoke() {
				ci.names = []string{"recv"}
				ci.args = []Val{fe.dummyVal(com.Value.Type())}
			}
			cc := fe.calleeCtx(sst, ci)
			saveErrs := len(fe.errs)
			for _, it := range fe.V.expandFrames(con.Modifies) {
				for _, n := range fe.havocItem(sst, cc, it, "scan") {
					li.modHeap[n] = true
				}
			}
			_ = saveErrs
		}
	}
	for b := range li.body {
		for _, ins := range b.Instrs {
			scan(ins, 0)
		}
	}
}

func (fe *FE) dummyVal(t types.Type) Val {
	if s := fe.S.scalarSort(t); s != "" {
		return scalar("dummy", s, t)
	}
	if isSliceType(t) {
		return Val{Kind: VSlice, Arr: "dummy", Off: "0", Len: "0", Cap: "0", GoT: t}
	}
	return Val{Kind: VNone, GoT: t}
}

func (fe *FE) structFieldBases(t types.Type, add func(string, types.Type)) {
	su := t.Underlying().(*types.Struct)
	for i := 0; i < su.NumFields(); i++ {
		f := su.Field(i)
		if isStructType(f.Type()) {
			fe.structFieldBases(f.Type(), add)
			continue
		}
		if fe.components(f.Type()) != nil {
			add(fieldBase(t, f.Name()), f.Type())
		}
	}
}

// ---------------------------------------------------------------------------
// discipline hooks (lock / immutability); refined in discipline.go

func (fe *FE) disciplineStore(st *State, loc *Loc, site string) {
	fe.checkGuard(st, loc, site, "store")
}
func (fe *FE) disciplineLoad(st *State, loc *Loc, site string) {
	fe.checkGuard(st, loc, site, "load")
}
func (fe *FE) disciplineMapStore(st *State, m Val, mt *types.Map, site string) {}

func strip(s string) string { return strings.TrimSpace(s) }
