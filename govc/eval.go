package main

// Evaluation of contract expressions into symbolic values.

import (
	"fmt"
	"go/types"
	"strconv"
	"strings"

	"golang.org/x/tools/go/ssa"
)

type hookCtx struct {
	recv   *Val
	args   []Val
	result []Val
	binds  map[string]Val // closure bindings by free-variable name; task ghosts as t.<name>
}

type Ctx struct {
	fe        *FE
	st        *State
	binds     map[string]Val
	params    map[string]Val // parameter / free-variable name -> value
	result    []Val
	old       map[string]string // heap snapshot used by old(); nil = entry heap
	oldGh     map[string]Val
	own       bool // evaluating the verified function's own contract: ghosts, locals visible
	hook      *hookCtx
	pkg       *types.Package
	head      *ssa.BasicBlock // loop head for `rangeindex` & phi names
	qdepth    int
	side      []string
	inOld     bool
	ghostNS   map[string]Val // extra namespace (callee task ghosts)
	what      string
	freshBase string // allocation counter at the start of the call whose contract is being evaluated
}

func (c *Ctx) errorf(format string, a ...interface{}) Val {
	c.fe.errorf("contract expr (%s): "+format, append([]interface{}{c.what}, a...)...)
	return scalar("false", SBool, types.Typ[types.Bool])
}

func (c *Ctx) heapName(name string) map[string]string {
	if c.inOld {
		if c.old != nil {
			return c.old
		}
		return nil
	}
	return c.st.heap
}

// heapTermCtx returns the heap array term for name in the current (or old) heap.
func (c *Ctx) heapTermCtx(name, sort string) string {
	if c.inOld {
		c.fe.globalDecl(name+"!0", fmt.Sprintf("(declare-const %s %s)", name+"!0", sort))
		c.fe.heapSort(name, sort)
		if c.old != nil {
			if t, ok := c.old[name]; ok {
				if t == "?" {
					n := c.fe.newConst(c.st, name, sort)
					c.old[name] = n
					if cur, ok := c.st.heap[name]; ok && cur == "?" {
						c.st.heap[name] = n
					}
					return n
				}
				return t
			}
		}
		// untouched before the snapshot (or snapshot = entry): the initial version
		return name + "!0"
	}
	return c.fe.heapTerm(c.st, name, sort)
}

func (c *Ctx) loadPure(loc *Loc) Val {
	fe := c.fe
	comps := fe.components(loc.T)
	if comps == nil {
		return c.errorf("unsupported load of type %s", loc.T)
	}
	get := func(cm comp) string {
		arr := c.heapTermCtx(loc.Base+cm.suffix, arraySort(idxSorts(len(loc.Idx), ""), cm.sort))
		return sel(arr, loc.Idx...)
	}
	if len(comps) == 1 {
		v := scalar(get(comps[0]), comps[0].sort, loc.T)
		fe.noteRefHeap(loc)
		return v
	}
	v := Val{Kind: VSlice, Arr: get(comps[0]), Off: get(comps[1]), Len: get(comps[2]), Cap: get(comps[3]), GoT: loc.T}
	fe.noteRefHeap(loc)
	if c.qdepth == 0 {
		c.side = append(c.side, fmt.Sprintf("(and (<= 0 %s) (<= 0 %s) (<= %s %s) (<= %s 281474976710656))", v.Off, v.Len, v.Len, v.Cap, v.Cap))
	}
	return v
}

func (c *Ctx) lookupParam(name string) (Val, bool) {
	if v, ok := c.params[name]; ok {
		return v, true
	}
	return Val{}, false
}

func (c *Ctx) eval(e *Expr) Val {
	fe := c.fe
	switch e.Op {
	case "lit":
		switch e.S {
		case "true", "false":
			return scalar(e.S, SBool, types.Typ[types.Bool])
		case "nil":
			return scalar("0", SInt, types.Typ[types.UntypedNil])
		}
		return Val{Kind: VScalar, T: e.S, Sort: "lit", GoT: types.Typ[types.UntypedInt]}
	case "str":
		return scalar(fe.strLit(e.S), SStr, types.Typ[types.String])
	case "id":
		return c.evalIdent(e.S)
	case "sel":
		return c.evalSel(e)
	case "idx":
		return c.evalIndex(e)
	case "slice":
		return c.evalSlice(e)
	case "call":
		return c.evalCall(e)
	case "un":
		k := c.eval(e.Kids[0])
		if e.S == "!" {
			return scalar(not(c.boolTerm(k)), SBool, types.Typ[types.Bool])
		}
		k = c.coerceLit(k, SInt)
		if strings.HasPrefix(k.Sort, "(_ BitVec") {
			return scalar("(bvneg "+k.T+")", k.Sort, k.GoT)
		}
		if k.Sort == SF64 || k.Sort == SF32 {
			return scalar("(fp.neg "+k.T+")", k.Sort, k.GoT)
		}
		return scalar("(- "+k.T+")", SInt, k.GoT)
	case "bin":
		return c.evalBin(e)
	case "q":
		saved := map[string]*Val{}
		var decls []string
		for _, qv := range e.Vars {
			if old, ok := c.binds[qv.Name]; ok {
				o := old
				saved[qv.Name] = &o
			} else {
				saved[qv.Name] = nil
			}
			sort, gt := c.qvarSort(qv.Type)
			c.fe.qcount++
			nm := fmt.Sprintf("q_%s_%d", qv.Name, c.fe.qcount) // unique: nested quantifiers must not capture
			c.binds[qv.Name] = scalar(nm, sort, gt)
			decls = append(decls, "("+nm+" "+sort+")")
		}
		c.qdepth++
		body := c.boolTerm(c.eval(e.Kids[0]))
		c.qdepth--
		for n, o := range saved {
			if o == nil {
				delete(c.binds, n)
			} else {
				c.binds[n] = *o
			}
		}
		return scalar("("+e.S+" ("+strings.Join(decls, " ")+") "+body+")", SBool, types.Typ[types.Bool])
	case "let":
		v := c.eval(e.Kids[0])
		old, had := c.binds[e.S]
		c.binds[e.S] = v
		r := c.eval(e.Kids[1])
		if had {
			c.binds[e.S] = old
		} else {
			delete(c.binds, e.S)
		}
		return r
	}
	return c.errorf("unsupported expression %s", e)
}

func (c *Ctx) qvarSort(t string) (string, types.Type) {
	switch t {
	case "", "int":
		return SInt, types.Typ[types.Int]
	case "string":
		return SStr, types.Typ[types.String]
	case "bool":
		return SBool, types.Typ[types.Bool]
	case "ref":
		return SInt, types.Typ[types.UnsafePointer]
	case "rv":
		return SRV, nil
	}
	if gt := c.fe.V.resolveType(t, c.pkg); gt != nil {
		if s := c.fe.S.scalarSort(gt); s != "" {
			return s, gt
		}
	}
	c.errorf("unknown bound variable type %q", t)
	return SInt, types.Typ[types.Int]
}

func (c *Ctx) boolTerm(v Val) string {
	if v.Kind == VScalar && v.Sort == SBool {
		return v.T
	}
	c.errorf("expected boolean, got %v (sort %s)", v, v.Sort)
	return "false"
}

func (c *Ctx) coerceLit(v Val, sort string) Val {
	if v.Kind != VScalar || v.Sort != "lit" {
		return v
	}
	n, err := strconv.ParseInt(v.T, 0, 64)
	var un uint64
	if err != nil {
		u, err2 := strconv.ParseUint(v.T, 0, 64)
		if err2 != nil {
			c.errorf("bad integer literal %s", v.T)
		}
		un = u
		n = int64(u)
	} else {
		un = uint64(n)
	}
	switch {
	case sort == SInt || sort == "lit" || sort == "":
		if err != nil {
			return scalar(fmt.Sprintf("%d", un), SInt, types.Typ[types.Int])
		}
		return scalar(intLit(n), SInt, types.Typ[types.Int])
	case strings.HasPrefix(sort, "(_ BitVec"):
		var w int
		fmt.Sscanf(sort, "(_ BitVec %d)", &w)
		return scalar(bvLit(un, w), sort, types.Typ[types.Int64])
	case sort == SF64:
		return scalar(fmt.Sprintf("((_ to_fp 11 53) RNE %d.0)", n), SF64, types.Typ[types.Float64])
	}
	return scalar(intLit(n), SInt, types.Typ[types.Int])
}

func (c *Ctx) evalIdent(name string) Val {
	fe := c.fe
	if v, ok := c.binds[name]; ok {
		return v
	}
	if c.hook != nil {
		switch {
		case name == "recv" && c.hook.recv != nil:
			return *c.hook.recv
		case strings.HasPrefix(name, "arg"):
			if i, err := strconv.Atoi(name[3:]); err == nil && i < len(c.hook.args) {
				return c.hook.args[i]
			}
		case name == "callresult":
			if len(c.hook.result) == 1 {
				return c.hook.result[0]
			}
			return Val{Kind: VTuple, Elems: c.hook.result}
		}
		if v, ok := c.hook.binds[name]; ok {
			return c.derefCell(v)
		}
	}
	if name == "panicking" {
		if c.own {
			if v, ok := c.st.ghosts["$recovered"]; ok {
				return scalar("(not (= "+v.T+" 0))", SBool, types.Typ[types.Bool])
			}
			return scalar("false", SBool, types.Typ[types.Bool])
		}
		if v, ok := c.st.ghosts["$panicking"]; ok {
			return v
		}
		return scalar("false", SBool, types.Typ[types.Bool])
	}
	if name == "result" {
		if len(c.result) == 1 {
			return c.result[0]
		}
		return Val{Kind: VTuple, Elems: c.result}
	}
	if c.ghostNS != nil {
		if v, ok := c.ghostNS[name]; ok {
			return v
		}
	}
	if c.own {
		if c.inOld && c.oldGh != nil {
			if v, ok := c.oldGh[name]; ok {
				return v
			}
		}
		if v, ok := c.st.ghosts[name]; ok {
			return v
		}
	}
	if v, ok := c.lookupParam(name); ok {
		return c.derefCell(v)
	}
	if c.own {
		head := c.head
		if head == nil {
			head = c.st.curLoop
		}
		if head != nil {
			for _, ins := range head.Instrs {
				if phi, ok := ins.(*ssa.Phi); ok {
					if phi.Comment == name {
						if v, ok := c.st.vals[phi]; ok {
							return v
						}
					}
				} else {
					break
				}
			}
		}
		if v, ok := c.st.names[name]; ok {
			return c.derefCell(v)
		}
		// a local that is not (yet) in scope on this path: its zero value
		if t := c.fe.localType(name); t != nil {
			return c.fe.zeroVal(t)
		}
	}
	// package-level global
	if c.pkg != nil {
		if obj := c.pkg.Scope().Lookup(name); obj != nil {
			if gv, ok := obj.(*types.Var); ok {
				loc := &Loc{Base: "G_" + c.pkg.Name() + "_" + name, T: gv.Type()}
				return c.loadPure(loc)
			}
			if cn, ok := obj.(*types.Const); ok {
				return c.coerceLit(Val{Kind: VScalar, T: cn.Val().ExactString(), Sort: "lit"}, SInt)
			}
		}
	}
	_ = fe
	return c.errorf("unknown identifier %q", name)
}

// derefCell: a named local that lives in a cell (address-taken/captured) denotes its contents.
func (c *Ctx) derefCell(v Val) Val {
	if v.Kind == VLoc {
		return c.loadPure(v.Loc)
	}
	return v
}

func (c *Ctx) evalSel(e *Expr) Val {
	fe := c.fe
	// qualified identifiers: pkg.Name (constants) or t.ghost
	if e.Kids[0].Op == "id" {
		base := e.Kids[0].S
		if _, bound := c.binds[base]; !bound {
			if p := fe.V.pkgByName[base]; p != nil {
				if obj := p.Types.Scope().Lookup(e.S); obj != nil {
					if cn, ok := obj.(*types.Const); ok {
						return c.coerceLit(Val{Kind: VScalar, T: cn.Val().ExactString(), Sort: "lit"}, SInt)
					}
					if gv, ok := obj.(*types.Var); ok {
						return c.loadPure(&Loc{Base: "G_" + p.Types.Name() + "_" + e.S, T: gv.Type()})
					}
				}
			}
			if base == "reflect" {
				if k, ok := reflectKinds[e.S]; ok {
					return scalar(fmt.Sprintf("%d", k), SInt, nil)
				}
			}
		}
	}
	x := c.eval(e.Kids[0])
	if x.Kind == VTuple {
		i, err := strconv.Atoi(e.S)
		if err != nil || i >= len(x.Elems) {
			return c.errorf("bad tuple selector .%s", e.S)
		}
		return x.Elems[i]
	}
	if x.Kind == VScalar && e.S == "0" {
		return x
	}
	if x.Kind != VScalar || x.GoT == nil {
		return c.errorf("cannot select .%s from %v", e.S, x)
	}
	return c.selectField(x, e.S)
}

// selectField follows x.f where x is a pointer to (or sub-object ref of) a struct.
func (c *Ctx) selectField(x Val, field string) Val {
	fe := c.fe
	t := x.GoT
	if p, ok := t.Underlying().(*types.Pointer); ok {
		t = p.Elem()
	}
	obj, index, _ := types.LookupFieldOrMethod(t, true, nil, field)
	if obj == nil {
		// unexported field of another package: look it up directly
		obj, index, _ = types.LookupFieldOrMethod(t, true, pkgOfType(t), field)
	}
	fv, ok := obj.(*types.Var)
	if !ok || fv == nil {
		return c.errorf("type %s has no field %s", t, field)
	}
	ref := x.T
	cur := t
	for n, i := range index {
		su, ok := cur.Underlying().(*types.Struct)
		if !ok {
			return c.errorf("not a struct: %s", cur)
		}
		f := su.Field(i)
		last := n == len(index)-1
		if isStructType(f.Type()) {
			fn := "sub_" + structName(cur) + "_" + f.Name()
			fe.globalDecl(fn, fmt.Sprintf("(declare-fun %s (Int) Int)", fn))
			ref = "(" + fn + " " + ref + ")"
			cur = f.Type()
			if last {
				return scalar(ref, SInt, types.NewPointer(f.Type()))
			}
			continue
		}
		loc := &Loc{Base: fieldBase(cur, f.Name()), Idx: []string{ref}, T: f.Type()}
		v := c.loadPure(loc)
		if last {
			return v
		}
		// pointer-embedded struct
		if v.Kind != VScalar {
			return c.errorf("bad embedded field %s", f.Name())
		}
		ref = v.T
		cur = derefType(f.Type())
		if cur == nil {
			return c.errorf("bad embedded field type %s", f.Type())
		}
	}
	return c.errorf("empty field path")
}

func pkgOfType(t types.Type) *types.Package {
	if n, ok := t.(*types.Named); ok {
		return n.Obj().Pkg()
	}
	return nil
}

func (c *Ctx) intTerm(v Val) string {
	v = c.coerceLit(v, SInt)
	if v.Kind != VScalar {
		c.errorf("expected integer, got %v", v)
		return "0"
	}
	if strings.HasPrefix(v.Sort, "(_ BitVec") {
		if isSignedT(v.GoT) {
			return c.fe.bv2intSigned(v.T, v.Sort)
		}
		return "(bv2nat " + v.T + ")"
	}
	return v.T
}

func (c *Ctx) evalIndex(e *Expr) Val {
	fe := c.fe
	x := c.eval(e.Kids[0])
	i := c.eval(e.Kids[1])
	switch {
	case x.Kind == VSlice:
		et := x.GoT.Underlying().(*types.Slice).Elem()
		loc := &Loc{Base: elemBase(et), Idx: []string{x.Arr, "(+ " + x.Off + " " + c.intTerm(i) + ")"}, T: et}
		return c.loadPure(loc)
	case x.Kind == VScalar && strings.HasPrefix(x.Sort, "(Array "):
		// ghost SMT array
		ks, vs := arraySorts(x.Sort)
		k := c.coerceLit(i, ks)
		return scalar(sel(x.T, k.T), vs, nil)
	case x.Kind == VScalar && x.GoT != nil:
		if m, ok := x.GoT.Underlying().(*types.Map); ok {
			kb, vb, _ := mapBases(m)
			ks := fe.S.scalarSort(m.Key())
			k := c.coerceLit(i, ks)
			_ = kb
			loc := &Loc{Base: vb, Idx: []string{x.T, k.T}, T: m.Elem()}
			return c.loadMapVal(loc, ks)
		}
		if p, ok := x.GoT.Underlying().(*types.Pointer); ok {
			if a, ok := p.Elem().Underlying().(*types.Array); ok {
				loc := &Loc{Base: elemBase(a.Elem()), Idx: []string{x.T, c.intTerm(i)}, T: a.Elem()}
				return c.loadPure(loc)
			}
		}
	}
	return c.errorf("cannot index %v", x)
}

func (c *Ctx) loadMapVal(loc *Loc, keySort string) Val {
	fe := c.fe
	comps := fe.components(loc.T)
	if comps == nil {
		return c.errorf("unsupported map value type %s", loc.T)
	}
	get := func(cm comp) string {
		arr := c.heapTermCtx(loc.Base+cm.suffix, arraySort([]string{SInt, keySort}, cm.sort))
		return sel(arr, loc.Idx...)
	}
	if len(comps) == 1 {
		return scalar(get(comps[0]), comps[0].sort, loc.T)
	}
	return Val{Kind: VSlice, Arr: get(comps[0]), Off: get(comps[1]), Len: get(comps[2]), Cap: get(comps[3]), GoT: loc.T}
}

func mapBases(m *types.Map) (dom, val, ln string) {
	k := typeKey(m.Key()) + "_" + typeKey(m.Elem())
	return "Mdom_" + k, "Mval_" + k, "Mlen_" + k
}

func (c *Ctx) evalSlice(e *Expr) Val {
	x := c.eval(e.Kids[0])
	if x.Kind != VSlice {
		return c.errorf("cannot slice %v", x)
	}
	lo := "0"
	if e.Kids[1] != nil {
		lo = c.intTerm(c.eval(e.Kids[1]))
	}
	hi := x.Len
	if e.Kids[2] != nil {
		hi = c.intTerm(c.eval(e.Kids[2]))
	}
	return Val{Kind: VSlice, Arr: x.Arr, Off: "(+ " + x.Off + " " + lo + ")", Len: "(- " + hi + " " + lo + ")", Cap: "(- " + x.Cap + " " + lo + ")", GoT: x.GoT}
}

func isSignedT(t types.Type) bool {
	if t == nil {
		return true
	}
	if b, ok := t.Underlying().(*types.Basic); ok {
		_, s := intWidth(b)
		return s
	}
	return true
}

func isFloatSort(s string) bool { return s == SF64 || s == SF32 }
func isBVSort(s string) bool    { return strings.HasPrefix(s, "(_ BitVec") }

func (c *Ctx) evalBin(e *Expr) Val {
	op := e.S
	boolT := types.Typ[types.Bool]
	switch op {
	case "&&", "||", "==>", "<==>":
		a := c.boolTerm(c.eval(e.Kids[0]))
		b := c.boolTerm(c.eval(e.Kids[1]))
		switch op {
		case "&&":
			return scalar(and(a, b), SBool, boolT)
		case "||":
			return scalar(or(a, b), SBool, boolT)
		case "==>":
			return scalar(implies(a, b), SBool, boolT)
		default:
			return scalar("(= "+a+" "+b+")", SBool, boolT)
		}
	case "in":
		k := c.eval(e.Kids[0])
		m := c.eval(e.Kids[1])
		if m.Kind == VScalar && m.GoT != nil {
			if mt, ok := m.GoT.Underlying().(*types.Map); ok {
				db, _, _ := mapBases(mt)
				ks := c.fe.S.scalarSort(mt.Key())
				k = c.coerceLit(k, ks)
				arr := c.heapTermCtx(db, arraySort([]string{SInt, ks}, SBool))
				return scalar(sel(arr, m.T, k.T), SBool, boolT)
			}
		}
		if m.Kind == VScalar && strings.HasPrefix(m.Sort, "(Array") {
			return scalar(sel(m.T, k.T), SBool, boolT)
		}
		return c.errorf("'in' needs a map, got %v", m)
	}
	a := c.eval(e.Kids[0])
	b := c.eval(e.Kids[1])
	if a.Kind == VScalar && b.Kind == VScalar {
		if a.Sort == "lit" && b.Sort != "lit" {
			a = c.coerceLit(a, b.Sort)
		} else if b.Sort == "lit" && a.Sort != "lit" {
			b = c.coerceLit(b, a.Sort)
		} else if a.Sort == "lit" && b.Sort == "lit" {
			a = c.coerceLit(a, SInt)
			b = c.coerceLit(b, SInt)
		}
	}
	if a.Kind == VScalar && b.Kind == VScalar && a.GoT != nil && b.GoT == nil || a.Kind == VScalar && b.Kind == VScalar {
		// a machine integer (bit-vector in `arith bv`) compared with a mathematical integer: compare integer values
		if a.Sort == SInt && isBVSort(b.Sort) && b.GoT != nil {
			b = scalar(c.intTerm(b), SInt, b.GoT)
		} else if b.Sort == SInt && isBVSort(a.Sort) && a.GoT != nil {
			a = scalar(c.intTerm(a), SInt, a.GoT)
		}
	}
	if op == "==" || op == "!=" {
		t := c.eqVals(a, b)
		if op == "!=" {
			t = not(t)
		}
		return scalar(t, SBool, boolT)
	}
	if a.Kind != VScalar || b.Kind != VScalar {
		return c.errorf("operator %s on non-scalars %v, %v", op, a, b)
	}
	if a.Sort != b.Sort {
		return c.errorf("operator %s on different sorts %s(%s) vs %s(%s) in %s", op, a.T, a.Sort, b.T, b.Sort, e)
	}
	switch {
	case a.Sort == SInt:
		switch op {
		case "+", "-", "*":
			return scalar("("+op+" "+a.T+" "+b.T+")", SInt, a.GoT)
		case "/":
			return scalar("(godiv "+a.T+" "+b.T+")", SInt, a.GoT)
		case "%":
			return scalar("(gomod "+a.T+" "+b.T+")", SInt, a.GoT)
		case "<", "<=", ">", ">=":
			return scalar("("+op+" "+a.T+" "+b.T+")", SBool, boolT)
		}
	case isBVSort(a.Sort):
		signed := isSignedT(a.GoT) && isSignedT(b.GoT)
		m := map[string]string{"+": "bvadd", "-": "bvsub", "*": "bvmul"}
		if f, ok := m[op]; ok {
			return scalar("("+f+" "+a.T+" "+b.T+")", a.Sort, a.GoT)
		}
		var f string
		switch op {
		case "/":
			f = map[bool]string{true: "bvsdiv", false: "bvudiv"}[signed]
			return scalar("("+f+" "+a.T+" "+b.T+")", a.Sort, a.GoT)
		case "%":
			f = map[bool]string{true: "bvsrem", false: "bvurem"}[signed]
			return scalar("("+f+" "+a.T+" "+b.T+")", a.Sort, a.GoT)
		case "<":
			f = map[bool]string{true: "bvslt", false: "bvult"}[signed]
		case "<=":
			f = map[bool]string{true: "bvsle", false: "bvule"}[signed]
		case ">":
			f = map[bool]string{true: "bvsgt", false: "bvugt"}[signed]
		case ">=":
			f = map[bool]string{true: "bvsge", false: "bvuge"}[signed]
		}
		if f != "" {
			return scalar("("+f+" "+a.T+" "+b.T+")", SBool, boolT)
		}
	case isFloatSort(a.Sort):
		m := map[string]string{"+": "fp.add RNE", "-": "fp.sub RNE", "*": "fp.mul RNE", "/": "fp.div RNE"}
		if f, ok := m[op]; ok {
			return scalar("("+f+" "+a.T+" "+b.T+")", a.Sort, a.GoT)
		}
		m2 := map[string]string{"<": "fp.lt", "<=": "fp.leq", ">": "fp.gt", ">=": "fp.geq"}
		if f, ok := m2[op]; ok {
			return scalar("("+f+" "+a.T+" "+b.T+")", SBool, boolT)
		}
	case a.Sort == SStr:
		switch op {
		case "<":
			return scalar("(strlt "+a.T+" "+b.T+")", SBool, boolT)
		case ">":
			return scalar("(strlt "+b.T+" "+a.T+")", SBool, boolT)
		case "<=":
			return scalar("(not (strlt "+b.T+" "+a.T+"))", SBool, boolT)
		case ">=":
			return scalar("(not (strlt "+a.T+" "+b.T+"))", SBool, boolT)
		case "+":
			return scalar("(strcat "+a.T+" "+b.T+")", SStr, a.GoT)
		}
	}
	return c.errorf("unsupported operator %s on sort %s", op, a.Sort)
}

func (c *Ctx) eqVals(a, b Val) string {
	if a.Kind == VScalar && b.Kind == VScalar {
		if a.Sort != b.Sort {
			c.errorf("== on different sorts %s(%s) vs %s(%s)", a.T, a.Sort, b.T, b.Sort)
			return "false"
		}
		if isFloatSort(a.Sort) {
			return "(fp.eq " + a.T + " " + b.T + ")"
		}
		return eq(a.T, b.T)
	}
	if a.Kind == VSlice && b.Kind == VSlice {
		return and(eq(a.Arr, b.Arr), eq(a.Off, b.Off), eq(a.Len, b.Len), eq(a.Cap, b.Cap))
	}
	if a.Kind == VSlice && b.Kind == VScalar && b.T == "0" { // s == nil
		return eq(a.Arr, "0")
	}
	if b.Kind == VSlice && a.Kind == VScalar && a.T == "0" {
		return eq(b.Arr, "0")
	}
	if a.Kind == VTuple && b.Kind == VTuple && len(a.Elems) == len(b.Elems) {
		var ts []string
		for i := range a.Elems {
			ts = append(ts, c.eqVals(a.Elems[i], b.Elems[i]))
		}
		return and(ts...)
	}
	c.errorf("cannot compare %v and %v", a, b)
	return "false"
}

func (c *Ctx) evalCall(e *Expr) Val {
	fe := c.fe
	boolT := types.Typ[types.Bool]
	switch e.S {
	case "old":
		saved := c.inOld
		c.inOld = true
		v := c.eval(e.Kids[0])
		c.inOld = saved
		return v
	case "len":
		x := c.eval(e.Kids[0])
		if x.Kind == VSlice {
			return scalar(x.Len, SInt, types.Typ[types.Int])
		}
		if x.Kind == VScalar && x.Sort == SStr {
			return scalar("(strlen "+x.T+")", SInt, types.Typ[types.Int])
		}
		if x.Kind == VScalar && x.GoT != nil {
			if mt, ok := x.GoT.Underlying().(*types.Map); ok {
				_, _, lb := mapBases(mt)
				arr := c.heapTermCtx(lb, arraySort([]string{SInt}, SInt))
				return scalar(sel(arr, x.T), SInt, types.Typ[types.Int])
			}
		}
		return c.errorf("len of %v", x)
	case "cap":
		x := c.eval(e.Kids[0])
		if x.Kind == VSlice {
			return scalar(x.Cap, SInt, types.Typ[types.Int])
		}
		return c.errorf("cap of %v", x)
	case "arr": // identity of the backing array of a slice
		x := c.eval(e.Kids[0])
		if x.Kind == VSlice {
			return scalar(x.Arr, SInt, types.Typ[types.UnsafePointer])
		}
		return c.errorf("arr of %v", x)
	case "lo", "hi": // absolute index bounds of a slice within its backing array
		x := c.eval(e.Kids[0])
		if x.Kind == VSlice {
			if e.S == "lo" {
				return scalar(x.Off, SInt, types.Typ[types.Int])
			}
			return scalar("(+ "+x.Off+" "+x.Len+")", SInt, types.Typ[types.Int])
		}
		return c.errorf("%s of %v", e.S, x)
	case "at": // at(s, j): element at ABSOLUTE index j of s's backing array (quantify with lo(s) <= j < hi(s))
		x := c.eval(e.Kids[0])
		j := c.eval(e.Kids[1])
		if x.Kind == VSlice {
			et := x.GoT.Underlying().(*types.Slice).Elem()
			return c.loadPure(&Loc{Base: elemBase(et), Idx: []string{x.Arr, c.intTerm(j)}, T: et})
		}
		return c.errorf("at of %v", x)
	case "off":
		x := c.eval(e.Kids[0])
		if x.Kind == VSlice {
			return scalar(x.Off, SInt, types.Typ[types.Int])
		}
		return c.errorf("off of %v", x)
	case "ite":
		cnd := c.boolTerm(c.eval(e.Kids[0]))
		a := c.eval(e.Kids[1])
		b := c.eval(e.Kids[2])
		if a.Sort == "lit" {
			a = c.coerceLit(a, b.Sort)
		}
		if b.Sort == "lit" {
			b = c.coerceLit(b, a.Sort)
		}
		if a.Kind == VScalar && b.Kind == VScalar && a.Sort == b.Sort {
			return scalar(ite(cnd, a.T, b.T), a.Sort, a.GoT)
		}
		return c.errorf("ite branches differ: %v / %v", a, b)
	case "fresh": // fresh(x): x was allocated during this activation (or since the old snapshot)
		x := c.eval(e.Kids[0])
		t := x.T
		if x.Kind == VSlice {
			t = x.Arr
		}
		base := fe.entryCnt()
		if c.freshBase != "" && !c.inOld {
			base = c.freshBase
		}
		return scalar("(> "+t+" "+base+")", SBool, boolT)
	case "allocated": // allocated(x): x is an object that exists now (not a future allocation)
		x := c.eval(e.Kids[0])
		t := x.T
		if x.Kind == VSlice {
			t = x.Arr
		}
		return scalar("(<= "+t+" "+fe.cntTerm(c.st)+")", SBool, boolT)
	case "held": // held(lockref)
		x := c.eval(e.Kids[0])
		arr := c.heapTermCtx("G_held", arraySort([]string{SInt}, SBool))
		return scalar(sel(arr, x.T), SBool, boolT)
	case "added", "forked", "waited", "done":
		x := c.eval(e.Kids[0])
		arr := c.heapTermCtx("G_wg_"+e.S, arraySort([]string{SInt}, SInt))
		return scalar(sel(arr, x.T), SInt, types.Typ[types.Int])
	case "isnil":
		x := c.eval(e.Kids[0])
		if x.Kind == VSlice {
			return scalar(eq(x.Arr, "0"), SBool, boolT)
		}
		return scalar(eq(x.T, "0"), SBool, boolT)
	case "emptymap": // emptymap(m): no key present
		x := c.eval(e.Kids[0])
		if mt, ok := x.GoT.Underlying().(*types.Map); ok {
			db, _, _ := mapBases(mt)
			ks := fe.S.scalarSort(mt.Key())
			arr := c.heapTermCtx(db, arraySort([]string{SInt, ks}, SBool))
			return scalar(eq(sel(arr, x.T), "((as const (Array "+ks+" Bool)) false)"), SBool, boolT)
		}
		return c.errorf("emptymap of %v", x)
	case "dom": // dom(m): the key set as an SMT array K->Bool
		x := c.eval(e.Kids[0])
		if mt, ok := x.GoT.Underlying().(*types.Map); ok {
			db, _, _ := mapBases(mt)
			ks := fe.S.scalarSort(mt.Key())
			arr := c.heapTermCtx(db, arraySort([]string{SInt, ks}, SBool))
			return scalar(sel(arr, x.T), "(Array "+ks+" Bool)", nil)
		}
		return c.errorf("dom of %v", x)
	case "vals": // vals(m): value array K->V (scalar V only)
		x := c.eval(e.Kids[0])
		if mt, ok := x.GoT.Underlying().(*types.Map); ok {
			_, vb, _ := mapBases(mt)
			ks := fe.S.scalarSort(mt.Key())
			vs := fe.S.scalarSort(mt.Elem())
			arr := c.heapTermCtx(vb, arraySort([]string{SInt, ks}, vs))
			return scalar(sel(arr, x.T), "(Array "+ks+" "+vs+")", nil)
		}
		return c.errorf("vals of %v", x)
	case "gget": // gget(NAME, ref): ghost integer attribute NAME of object ref
		nm := e.Kids[0].S
		x := c.eval(e.Kids[1])
		arr := c.heapTermCtx("G_"+nm, arraySort([]string{SInt}, SInt))
		return scalar(sel(arr, x.T), SInt, types.Typ[types.Int])
	case "emptystrintmap": // Str -> Int ghost array, all zero
		return scalar("((as const (Array Str Int)) 0)", "(Array Str Int)", nil)
	case "anyrvmap": // Int -> reflect.Value ghost array with unconstrained initial contents
		fe.globalDecl("rvmap!0", "(declare-const rvmap!0 (Array Int RV))")
		return scalar("rvmap!0", "(Array Int RV)", nil)
	case "emptyintmap": // Int -> Int ghost array, all zero
		return scalar("((as const (Array Int Int)) 0)", "(Array Int Int)", nil)
	case "store":
		a := c.eval(e.Kids[0])
		ks, vs := arraySorts(a.Sort)
		i := c.coerceLit(c.eval(e.Kids[1]), ks)
		v := c.coerceLit(c.eval(e.Kids[2]), vs)
		return scalar("(store "+a.T+" "+i.T+" "+v.T+")", a.Sort, nil)
	case "emptyset": // emptyset(string|int)
		ks := SStr
		if len(e.Kids) == 1 && e.Kids[0].Op == "id" && e.Kids[0].S != "string" {
			ks = SInt
		}
		return scalar("((as const (Array "+ks+" Bool)) false)", "(Array "+ks+" Bool)", nil)
	case "setadd":
		s0 := c.eval(e.Kids[0])
		x := c.eval(e.Kids[1])
		return scalar("(store "+s0.T+" "+x.T+" true)", s0.Sort, nil)
	case "setdel":
		s0 := c.eval(e.Kids[0])
		x := c.eval(e.Kids[1])
		return scalar("(store "+s0.T+" "+x.T+" false)", s0.Sort, nil)
	case "ifbv", "ifint": // clause that only makes sense in one arithmetic mode (true in the other)
		if (e.S == "ifbv") != fe.S.BV {
			return scalar("true", SBool, types.Typ[types.Bool])
		}
		return c.eval(e.Kids[0])
	case "int": // integer value of a bit-vector/int term
		x := c.eval(e.Kids[0])
		return scalar(c.intTerm(x), SInt, types.Typ[types.Int])
	}
	// user-defined predicate (macro expansion)
	if pd, ok := fe.V.C.Preds[e.S]; ok {
		if len(pd.Params) != len(e.Kids) {
			return c.errorf("pred %s expects %d args", e.S, len(pd.Params))
		}
		saved := map[string]*Val{}
		var args []Val
		for _, k := range e.Kids {
			args = append(args, c.eval(k))
		}
		for i, p := range pd.Params {
			if old, ok := c.binds[p.Name]; ok {
				o := old
				saved[p.Name] = &o
			} else {
				saved[p.Name] = nil
			}
			a := args[i]
			if a.Sort == "lit" {
				s, _ := c.qvarSort(p.Type)
				a = c.coerceLit(a, s)
			}
			if a.GoT == nil || p.Type != "" {
				if gt := fe.V.resolveType(p.Type, c.pkg); gt != nil {
					a.GoT = gt
				}
			}
			c.binds[p.Name] = a
		}
		// predicates are closed: they do not see hook/own names except through params
		r := c.eval(pd.Body)
		for n, o := range saved {
			if o == nil {
				delete(c.binds, n)
			} else {
				c.binds[n] = *o
			}
		}
		return r
	}
	// raw SMT function from the SMT prelude
	if sig, ok := fe.V.smtFuncs[e.S]; ok {
		var ts []string
		for i, k := range e.Kids {
			v := c.eval(k)
			if v.Sort == "lit" && i < len(sig.args) {
				v = c.coerceLit(v, sig.args[i])
			}
			if v.Kind != VScalar {
				return c.errorf("SMT function %s: non-scalar argument %v", e.S, v)
			}
			ts = append(ts, v.T)
		}
		if len(ts) == 0 {
			return scalar(e.S, sig.ret, nil)
		}
		return scalar("("+e.S+" "+strings.Join(ts, " ")+")", sig.ret, nil)
	}
	return c.errorf("unknown function %s", e.S)
}

func (fe *FE) entryCnt() string { return "cnt!entry" }

func (fe *FE) bv2intSigned(t, sort string) string {
	var w int
	fmt.Sscanf(sort, "(_ BitVec %d)", &w)
	half := new(strings.Builder)
	fmt.Fprintf(half, "%d", uint64(1)<<uint(w-1))
	full := "18446744073709551616"
	if w < 64 {
		full = fmt.Sprintf("%d", uint64(1)<<uint(w))
	}
	return fmt.Sprintf("(ite (bvslt %s %s) (- (bv2nat %s) %s) (bv2nat %s))", t, bvLit(0, w), t, full, t)
}

var reflectKinds = map[string]int{
	"Invalid": 0, "Bool": 1, "Int": 2, "Int8": 3, "Int16": 4, "Int32": 5, "Int64": 6,
	"Uint": 7, "Uint8": 8, "Uint16": 9, "Uint32": 10, "Uint64": 11, "Uintptr": 12,
	"Float32": 13, "Float64": 14, "Complex64": 15, "Complex128": 16, "Array": 17, "Chan": 18,
	"Func": 19, "Interface": 20, "Map": 21, "Ptr": 22, "Pointer": 22, "Slice": 23, "String": 24, "Struct": 25, "UnsafePointer": 26,
}

var reflectKindNames = []string{"invalid", "bool", "int", "int8", "int16", "int32", "int64", "uint", "uint8", "uint16", "uint32", "uint64", "uintptr",
	"float32", "float64", "complex64", "complex128", "array", "chan", "func", "interface", "map", "ptr", "slice", "string", "struct", "unsafe.Pointer"}

// arraySorts splits "(Array K V)" into K and V.
func arraySorts(s string) (string, string) {
	s = strings.TrimSuffix(strings.TrimPrefix(s, "(Array "), ")")
	depth := 0
	for i, c := range s {
		switch c {
		case '(':
			depth++
		case ')':
			depth--
		case ' ':
			if depth == 0 {
				return s[:i], s[i+1:]
			}
		}
	}
	return s, ""
}
