package main

import (
	"fmt"
	"go/constant"
	"go/types"
	"strings"

	"golang.org/x/tools/go/ssa"
)

// ---------------------------------------------------------------------------
// naming

func (v *Verifier) inRepo(p *ssa.Package) bool {
	return p != nil && strings.HasPrefix(p.Pkg.Path(), v.modPath)
}

// contractKey: key of fn in Contracts.Funcs.
func (v *Verifier) contractKey(fn *ssa.Function) string {
	if fn.Pkg != nil && v.inRepo(fn.Pkg) {
		return fn.Pkg.Pkg.Path() + "." + fn.RelString(fn.Pkg.Pkg)
	}
	if fn.Pkg == nil && fn.Parent() != nil {
		return v.contractKey(fn.Parent()) + strings.TrimPrefix(fn.Name(), fn.Parent().Name())
	}
	return fn.String()
}

func (v *Verifier) contractFor(fn *ssa.Function) *FuncContract {
	if c, ok := v.C.Funcs[v.contractKey(fn)]; ok {
		return c
	}
	// methods promoted / wrappers: try the origin
	if fn.Synthetic != "" {
		if o := fn.Origin(); o != nil && o != fn {
			return v.contractFor(o)
		}
	}
	return nil
}

// displayNames: the forms under which an oncall pattern may name fn.
func (v *Verifier) displayNames(fn *ssa.Function, cur *ssa.Function) []string {
	var out []string
	full := fn.String()
	out = append(out, full)
	if fn.Pkg != nil {
		rel := fn.RelString(fn.Pkg.Pkg)
		out = append(out, rel)
		// package-name qualified: (*base.RuleEntity).Execute / tool.BinarySearch
		pn := fn.Pkg.Pkg.Name()
		if strings.HasPrefix(rel, "(*") {
			out = append(out, "(*"+pn+"."+rel[2:])
		} else if strings.HasPrefix(rel, "(") {
			out = append(out, "("+pn+"."+rel[1:])
		} else {
			out = append(out, pn+"."+rel)
		}
	}
	if cur != nil && fn.Parent() != nil {
		// closure of the current function: $k suffix
		root := fn
		for root.Parent() != nil {
			root = root.Parent()
		}
		if strings.HasPrefix(fn.Name(), root.Name()) {
			out = append(out, strings.TrimPrefix(fn.Name(), root.Name()))
		}
		if strings.HasPrefix(fn.Name(), cur.Name()) {
			out = append(out, strings.TrimPrefix(fn.Name(), cur.Name()))
		}
	}
	return out
}

// ---------------------------------------------------------------------------
// calls

type callInfo struct {
	fn      *ssa.Function
	con     *FuncContract
	recv    *Val
	args    []Val // including receiver first for methods
	names   []string
	binds   map[string]Val // closure bindings by name
	display []string
	sig     *types.Signature
	iface   string
}

func (fe *FE) execCall(st *State, ins ssa.Instruction, com *ssa.CallCommon, res ssa.Value, site, mode string) bool {
	// builtins
	if b, ok := com.Value.(*ssa.Builtin); ok {
		return fe.execBuiltin(st, b, com, res, site)
	}
	ci := &callInfo{sig: com.Signature()}
	var args []Val
	for _, a := range com.Args {
		args = append(args, fe.valOf(st, a))
	}
	if com.IsInvoke() {
		recv := fe.valOf(st, com.Value)
		ci.recv = &recv
		tn := types.TypeString(com.Value.Type(), func(p *types.Package) string { return p.Path() })
		ci.iface = tn + "." + com.Method.Name()
		ci.display = []string{ci.iface, shortPkgType(com.Value.Type()) + "." + com.Method.Name()}
		ci.con = fe.V.C.Funcs[ci.iface]
		if ci.con == nil {
			ci.con = fe.V.C.Funcs[shortPkgType(com.Value.Type())+"."+com.Method.Name()]
		}
		ci.args = append([]Val{recv}, args...)
		ci.names = append(ci.names, "recv")
		ps := com.Method.Type().(*types.Signature).Params()
		for i := 0; i < ps.Len(); i++ {
			ci.names = append(ci.names, ps.At(i).Name())
		}
		if !fe.nilCheck(st, recv.T, site, "nil-iface-call") {
			return false
		}
	} else {
		fnv := fe.valOf(st, com.Value)
		var callee *ssa.Function
		switch fnv.Kind {
		case VFunc:
			callee = fnv.Fn
		case VClosure:
			callee = fnv.Fn
			ci.binds = map[string]Val{}
			for i, fv := range callee.FreeVars {
				if i < len(fnv.Binds) {
					ci.binds[fv.Name()] = fnv.Binds[i]
				}
			}
		default:
			if sc := com.StaticCallee(); sc != nil {
				callee = sc
			}
		}
		if callee == nil {
			// dynamic call of a function value: arbitrary code
			return fe.applyUnknownCall(st, com, res, site, "dynamic call of a function value")
		}
		ci.fn = callee
		ci.con = fe.V.contractFor(callee)
		ci.display = fe.V.displayNames(callee, fe.Fn)
		ci.args = args
		sg := callee.Signature
		if sg.Recv() != nil {
			ci.names = append(ci.names, sg.Recv().Name())
			if len(args) > 0 {
				r := args[0]
				ci.recv = &r
			}
		}
		for i := 0; i < sg.Params().Len(); i++ {
			ci.names = append(ci.names, sg.Params().At(i).Name())
		}
		if len(callee.Params) == len(ci.args) {
			for i, p := range callee.Params {
				if i < len(ci.names) {
					ci.names[i] = p.Name()
				}
			}
		}
		// natives
		if done, cont := fe.execNative(st, ins, callee, ci, res, site, mode); done {
			return cont
		}
	}
	if mode == "defer" {
		fe.errorf("internal: execCall in defer mode")
		return false
	}
	if mode == "call" && ci.con == nil && ci.fn != nil && ci.binds == nil && fe.inlinable(st, ci.fn) && len(fe.matchHooks(ci, mode)) == 0 {
		return fe.inlineCall(st, ci, res)
	}
	return fe.applyContract(st, ins, ci, res, site, mode)
}

// inlinable: a function of the repository without a contract, loop-free, without defer / go / recover, not already being
// inlined (no recursion), at most three levels deep. Its body is executed in place of the call, so a helper extracted
// from a verified function is judged by what it does, not rejected for lacking a contract.
func (fe *FE) inlinable(st *State, fn *ssa.Function) bool {
	if fn == nil || len(fn.Blocks) == 0 || fn.Pkg == nil || !fe.V.inRepo(fn.Pkg) || len(fn.FreeVars) > 0 || fn == fe.Fn || len(st.frames) >= 3 || fn.Recover != nil {
		return false
	}
	for _, fr := range st.frames {
		if fr.fn == fn {
			return false
		}
	}
	// loop-free: no edge to a block that is on the DFS stack
	on := map[*ssa.BasicBlock]bool{}
	seen := map[*ssa.BasicBlock]bool{}
	ok := true
	var dfs func(b *ssa.BasicBlock)
	dfs = func(b *ssa.BasicBlock) {
		seen[b], on[b] = true, true
		for _, ins := range b.Instrs {
			switch ins.(type) {
			case *ssa.Defer, *ssa.Go, *ssa.RunDefers, *ssa.Select, *ssa.Send:
				ok = false
			}
		}
		for _, s := range b.Succs {
			if on[s] {
				ok = false
			} else if !seen[s] {
				dfs(s)
			}
		}
		on[b] = false
	}
	dfs(fn.Blocks[0])
	return ok
}

func (fe *FE) inlineCall(st *State, ci *callInfo, res ssa.Value) bool {
	fn := ci.fn
	if len(fn.Params) != len(ci.args) {
		return false
	}
	fe.usedExt["inlined "+fe.V.contractKey(fn)+" (no contract: its loop-free body is executed in place of the call)"] = true
	for i, p := range fn.Params {
		a := ci.args[i]
		a.GoT = p.Type()
		st.vals[p] = a
	}
	saved := make(map[string]Val, len(st.names))
	for k, v := range st.names {
		saved[k] = v
	}
	st.frames = append(st.frames, &inlineFrame{fn: fn, retTo: fe.curB, retIdx: fe.curI, res: res, names: saved})
	st.path = append(st.path, "inline:"+fn.Name())
	fe.runBlock(st, fn.Blocks[0], nil)
	return false
}

func (fe *FE) applyUnknownCall(st *State, com *ssa.CallCommon, res ssa.Value, site, why string) bool {
	fe.errorf("%s at %s has no contract", why, site)
	if res != nil {
		st.vals[res] = fe.freshVal(st, "ret", res.Type())
	}
	return true
}

// calleeCtx builds the evaluation context of the callee's contract at a call site.
func (fe *FE) calleeCtx(st *State, ci *callInfo) *Ctx {
	c := &Ctx{fe: fe, st: st, binds: map[string]Val{}, params: map[string]Val{}}
	if ci.fn != nil && ci.fn.Pkg != nil {
		c.pkg = ci.fn.Pkg.Pkg
	} else if ci.fn != nil && ci.fn.Parent() != nil {
		p := ci.fn
		for p.Parent() != nil {
			p = p.Parent()
		}
		if p.Pkg != nil {
			c.pkg = p.Pkg.Pkg
		}
	}
	for i, a := range ci.args {
		if i < len(ci.names) && ci.names[i] != "" && ci.names[i] != "_" {
			c.params[ci.names[i]] = a
		}
		c.params[fmt.Sprintf("arg%d", i)] = a
	}
	if ci.recv != nil {
		c.params["recv"] = *ci.recv
	}
	for n, v := range ci.binds {
		if ci.fn != nil {
			for _, fv := range ci.fn.FreeVars {
				if fv.Name() == n {
					v = fe.cellVal(v, fv.Type())
				}
			}
		}
		c.params[n] = v
	}
	return c
}

func (fe *FE) matchHooks(ci *callInfo, mode string) []*OnCall {
	var out []*OnCall
	for _, oc := range fe.C.OnCalls {
		pat := oc.Pattern
		pmode := "call"
		if strings.HasPrefix(pat, "go ") {
			pmode = "go"
			pat = strings.TrimSpace(pat[3:])
		} else if strings.HasPrefix(pat, "defer ") {
			pmode = "defer"
			pat = strings.TrimSpace(pat[6:])
		}
		if pmode != mode {
			continue
		}
		for _, d := range ci.display {
			if d == pat {
				out = append(out, oc)
				break
			}
		}
	}
	return out
}

// hookCtxFor: evaluation context of the verified function's own oncall clauses.
func (fe *FE) hookCtxFor(st *State, ci *callInfo, result []Val, taskGhosts map[string]Val) *Ctx {
	c := fe.ownCtx(st)
	h := &hookCtx{recv: ci.recv, result: result, binds: map[string]Val{}}
	h.args = ci.args
	if ci.fn != nil && ci.fn.Signature.Recv() != nil && len(ci.args) > 0 {
		h.args = ci.args[1:]
	}
	if ci.iface != "" && len(ci.args) > 0 {
		h.args = ci.args[1:]
	}
	for n, v := range ci.binds {
		if ci.fn != nil {
			for _, fv := range ci.fn.FreeVars {
				if fv.Name() == n {
					v = fe.cellVal(v, fv.Type())
				}
			}
		}
		h.binds["b_"+n] = v
	}
	for n, v := range taskGhosts {
		h.binds["t_"+n] = v
	}
	c.hook = h
	return c
}

func (fe *FE) runHooks(st *State, hooks []*OnCall, ci *callInfo, phase string, result []Val, taskGhosts map[string]Val, site string) {
	for _, oc := range hooks {
		c := fe.hookCtxFor(st, ci, result, taskGhosts)
		if oc.Where != nil {
			// conditional hook: clauses guarded by the condition
			c.what = "oncall where"
			cond := c.boolTerm(c.eval(oc.Where))
			fe.runHookClauses(st, oc, c, phase, cond, site)
			continue
		}
		fe.runHookClauses(st, oc, c, phase, "true", site)
	}
}

func (fe *FE) runHookClauses(st *State, oc *OnCall, c *Ctx, phase, guard, site string) {
	// updates of one phase are simultaneous: evaluate all right-hand sides first
	type upd struct {
		name string
		v    Val
	}
	var upds []upd
	for i, cl := range oc.Clauses {
		switch cl.Kind {
		case "assert":
			if phase != "before" {
				continue
			}
			c.what = "oncall assert"
			c.side = nil
			t := c.boolTerm(c.eval(cl.E))
			for _, s := range c.side {
				st.assume(s)
			}
			fe.addOb(st, "monitor", fmt.Sprintf("%s.%s@%s", sanitizePat(oc.Pattern), clauseLabel(cl, i), site), fe.tagsOf(cl), implies(guard, t), cl.Src)
			st.assume(implies(guard, t))
		case "assume":
			if phase != "after" {
				continue
			}
			fe.usedAsm[fmt.Sprintf("assume %s (%s:%d)", cl.Src, shortFile(cl.File), cl.Line)] = true
			c.what = "oncall assume"
			t := c.boolTerm(c.eval(cl.E))
			st.assume(implies(guard, t))
		case "before", "after":
			if cl.Kind != phase {
				continue
			}
			c.what = "oncall " + cl.Kind + " " + cl.Var
			v := c.eval(cl.E)
			if lb := strings.Index(cl.Var, "["); lb > 0 && strings.HasSuffix(cl.Var, "]") {
				// ghost attribute update: NAME[objexpr] := value
				ie, err := ParseExpr(cl.Var[lb+1 : len(cl.Var)-1])
				if err != nil {
					fe.errorf("bad ghost attribute target %q", cl.Var)
					continue
				}
				iv := c.eval(ie)
				ref, ok := fe.asRef(iv)
				if !ok {
					fe.errorf("ghost attribute target %q is not a reference", cl.Var)
					continue
				}
				v = c.coerceLit(v, SInt)
				name := "G_" + strings.TrimSpace(cl.Var[:lb])
				val := v.T
				if guard != "true" {
					val = ite(guard, v.T, sel(fe.heapTerm(st, name, arraySort([]string{SInt}, SInt)), ref))
				}
				fe.ghostArrSet(st, name, ref, val, SInt)
				continue
			}
			old, ok := st.ghosts[cl.Var]
			if !ok {
				fe.errorf("oncall update of undeclared ghost %s", cl.Var)
				continue
			}
			if v.Sort == "lit" {
				v = c.coerceLit(v, old.Sort)
			}
			if guard != "true" && v.Kind == VScalar && old.Kind == VScalar {
				v = scalar(ite(guard, v.T, old.T), v.Sort, v.GoT)
			}
			upds = append(upds, upd{cl.Var, v})
		}
	}
	for _, u := range upds {
		// name the new ghost value to keep terms small
		if u.v.Kind == VScalar {
			n := fe.newConst(st, "gh_"+u.name, u.v.Sort)
			st.assume(eq(n, u.v.T))
			u.v.T = n
		}
		st.ghosts[u.name] = u.v
	}
}

func sanitizePat(p string) string {
	p = strings.ReplaceAll(p, " ", "_")
	if i := strings.LastIndex(p, "/"); i >= 0 {
		p = p[i+1:]
	}
	return p
}

// applyContract: assert requires, run hooks, havoc modifies, assume ensures.
func (fe *FE) applyContract(st *State, ins ssa.Instruction, ci *callInfo, res ssa.Value, site, mode string) bool {
	name := "?"
	if len(ci.display) > 0 {
		name = ci.display[len(ci.display)-1]
		if ci.fn != nil {
			name = ci.display[0]
		}
	}
	hooks := fe.matchHooks(ci, mode)
	if ci.con == nil && ci.fn != nil && ci.fn.Pkg != nil && benignPackage(ci.fn.Pkg.Pkg.Path()) && mode == "call" {
		// formatting / logging / time / string helpers of the standard library (and the logging dependency): no effect on
		// the modelled state, result unconstrained, no panic. Listed in the evidence as an assumed default contract.
		ci.con = &FuncContract{Name: name, Extern: true, ModSet: true}
		fe.usedExt["default extern "+name+" (assumed: no effect on gengine's state, unconstrained result; package whitelisted in govc/call.go benignPackage)"] = true
	}
	if ci.con == nil {
		fe.errorf("call to %s at %s: callee has no contract", name, site)
		fe.addStaticFailure("no-contract", sanitize(name), "callee "+name+" has no contract")
		if res != nil {
			st.vals[res] = fe.freshVal(st, "ret", res.Type())
		}
		return true
	}
	con := ci.con
	if con.Extern || con.Iface || con.Trusted != "" {
		fe.usedExt[fe.trustedName(con)] = true
	}
	cc := fe.calleeCtx(st, ci)
	// ghost namespace of a task callee (its declared ghosts, final values unknown until ensures)
	var taskGhosts map[string]Val
	// 1. hooks: before
	fe.runHooks(st, hooks, ci, "before", nil, nil, site)
	// 2. preconditions
	for i, r := range con.Requires {
		cc.what = "requires of " + name
		cc.side = nil
		t := cc.boolTerm(cc.eval(r.E))
		for _, s := range cc.side {
			st.assume(s)
		}
		fe.addOb(st, "call-pre", fmt.Sprintf("%s.%s@%s", sanitizePat(shortName(name)), clauseLabel(r, i), site), nil, t, r.Src)
		st.assume(t)
	}
	if con.PanicsUnl != nil {
		cc.what = "panics_unless of " + name
		t := cc.boolTerm(cc.eval(con.PanicsUnl))
		fe.safety(st, t, fmt.Sprintf("%s@%s", sanitizePat(shortName(name)), site), "call panics unless "+con.PanicsUnl.String())
	}
	if mode == "go" {
		if !con.IsTask {
			fe.errorf("go %s: callee contract is not declared `task`", name)
		}
		if con.NoPanic == nil {
			fe.addStaticFailure("task-nopanic", sanitize(shortName(name)), "goroutine body "+name+" is not declared nopanic: a panic in it would crash the process")
		}
	} else if con.NoPanic == nil && !con.Pure && (con.MayPanic || !con.Extern && !con.Iface) {
		// callee may panic
		if fe.nopanic && fe.C.NoPanicOwn == nil && !fe.structuralRecover() {
			fe.addOb(st, "safe", fmt.Sprintf("callee-nopanic.%s@%s", sanitizePat(shortName(name)), site), fe.tagsOf(fe.C.NoPanic), "false", "callee "+name+" is not nopanic")
		}
	}
	// 3. snapshot for old()
	snap := make(map[string]string, len(st.heap))
	for k, v := range st.heap {
		snap[k] = v
	}
	cc.old = snap
	// exceptional path: callee panics after arbitrary effects within its frame
	if mode == "call" && con.NoPanic == nil && !con.Pure && (con.MayPanic || !con.Extern && !con.Iface) && (fe.hasExceptional() || (fe.Fn.Recover != nil && len(st.defers) > 0)) {
		t := st.clone()
		tcc := *cc
		tcc.st = t
		// the counter grows BEFORE the frame is havocked: the closed-world bound of a havocked reference must admit
		// objects the callee allocated
		fe.bumpCnt(t)
		if !con.PanicSafe {
			fe.applyModifies(t, &tcc, con, name)
		}
		t.path = append(t.path, "panic-in:"+shortName(name))
		fe.doPanic(t, "callee "+name+" panics", "", "")
	}
	// 4. frame
	// (the counter grows before the havoc, see above: a reference written by the callee may be to a new object)
	prevCnt := fe.cntTerm(st)
	if !con.Pure {
		prevCnt = fe.bumpCnt(st)
	}
	mods := fe.applyModifies(st, cc, con, name)
	// 5. results
	var results []Val
	sig := ci.sig
	if sig != nil {
		for i := 0; i < sig.Results().Len(); i++ {
			rt := sig.Results().At(i).Type()
			if con.Extern && fe.S.scalarSort(rt) == "" && !isSliceType(rt) {
				// a struct / array result of a dependency (e.g. time.Time): an opaque value, only usable as an argument
				results = append(results, Val{Kind: VNone, GoT: rt})
				continue
			}
			results = append(results, fe.freshVal(st, "ret", rt))
		}
	}
	if con.Pure && len(results) == 1 && results[0].Kind == VScalar && con.Extern && len(con.Ensures) == 0 {
		// pure function without postcondition: uninterpreted function of its arguments
		results[0] = fe.pureApp(st, ci, name, results[0])
	}
	if con.Fresh && len(results) > 0 && results[0].Kind == VScalar {
		st.assume("(> " + results[0].T + " " + prevCnt + ")")
	}
	cc.result = results
	cc.freshBase = prevCnt
	if con.IsTask || len(con.Ghosts) > 0 {
		taskGhosts = map[string]Val{}
		updated := map[string]bool{}
		for _, oc := range con.OnCalls {
			for _, cl := range oc.Clauses {
				if cl.Kind == "after" || cl.Kind == "before" {
					updated[cl.Var] = true
				}
			}
		}
		// initial values are evaluated in the callee's pre-state
		savedOld := cc.inOld
		cc.inOld = true
		cc.ghostNS = taskGhosts
		for _, g := range con.Ghosts {
			cc.what = "callee ghost " + g.Name
			iv := cc.eval(g.Init)
			if g.Type != "" {
				if gt := fe.V.resolveType(g.Type, cc.pkg); gt != nil {
					if iv.Sort == "lit" {
						iv = cc.coerceLit(iv, fe.S.scalarSort(gt))
					}
					iv.GoT = gt
				}
			}
			if iv.Sort == "lit" {
				iv = cc.coerceLit(iv, SInt)
			}
			if updated[g.Name] {
				taskGhosts[g.Name] = fe.freshLike(st, "tg_"+g.Name, iv)
			} else {
				taskGhosts[g.Name] = iv
			}
		}
		cc.inOld = savedOld
	}
	// 6. postconditions
	assumeExported := func(e *Expr, what string) {
		// postconditions that mention locals of the callee are internal to it: they are proved there and
		// simply not visible at call sites
		saved := len(fe.errs)
		cc.what = what
		cc.side = nil
		t := cc.boolTerm(cc.eval(e))
		if len(fe.errs) > saved {
			fe.errs = fe.errs[:saved]
			return
		}
		for _, s := range cc.side {
			st.assume(s)
		}
		st.assume(t)
	}
	for i, e := range con.Ensures {
		assumeExported(e.E, fmt.Sprintf("ensures %d of %s", i, name))
	}
	for i, e := range con.EnsuresA {
		assumeExported(e.E, fmt.Sprintf("ensures_always %d of %s", i, name))
	}
	for i, e := range con.EnsuresT {
		fe.usedAsm[fmt.Sprintf("trusted postcondition of %s: %s (%s:%d)", shortName(name), e.Src, shortFile(e.File), e.Line)] = true
		assumeExported(e.E, fmt.Sprintf("ensures_trusted %d of %s", i, name))
	}
	if res != nil {
		if len(results) == 1 {
			r := results[0]
			r.GoT = res.Type()
			st.vals[res] = r
		} else {
			st.vals[res] = Val{Kind: VTuple, Elems: results, GoT: res.Type()}
		}
	}
	// 7. fork bookkeeping
	if mode == "go" {
		wg := ""
		if con.Task != "" {
			e, err := ParseExpr(con.Task)
			if err != nil {
				fe.errorf("bad task joins expression %q", con.Task)
			} else {
				cc.what = "task joins"
				wv := cc.eval(e)
				if r, ok := fe.asRef(wv); ok {
					wg = r
				} else {
					fe.errorf("task joins: not a reference %v", wv)
				}
			}
		}
		if wg != "" {
			fe.ghostArrAdd(st, "G_wg_forked", wg, "1")
		}
		st.live = append(st.live, liveTask{wg: wg, mods: mods})
		for _, m := range mods {
			st.unstable[m] = true
		}
	}
	// 8. hooks: after
	fe.runHooks(st, hooks, ci, "after", results, taskGhosts, site)
	return true
}

func shortName(n string) string {
	// strip module path
	n = strings.ReplaceAll(n, "github.com/bilibili/gengine/internal/", "")
	n = strings.ReplaceAll(n, "github.com/bilibili/gengine/", "")
	return n
}

func (fe *FE) trustedName(con *FuncContract) string {
	kind := "extern"
	if con.Iface {
		kind = "iface"
	}
	if con.Trusted != "" {
		kind = "trusted(" + con.Trusted + ")"
	}
	return fmt.Sprintf("%s %s (%s:%d)", kind, con.Name, shortFile(con.File), con.Line)
}

// pureApp: result of a pure extern = uninterpreted function of the scalar arguments.
func (fe *FE) pureApp(st *State, ci *callInfo, name string, r Val) Val {
	fn := "uf_" + sanitize(shortName(name))
	var sorts, ts []string
	for _, a := range ci.args {
		switch a.Kind {
		case VScalar:
			sorts = append(sorts, a.Sort)
			ts = append(ts, a.T)
		case VSlice:
			sorts = append(sorts, SInt, SInt, SInt)
			ts = append(ts, a.Arr, a.Off, a.Len)
		default:
			return r
		}
	}
	if len(ts) == 0 {
		return r
	}
	key := fn + "_" + sanitize(strings.Join(sorts, "_"))
	fe.globalDecl(key, fmt.Sprintf("(declare-fun %s (%s) %s)", key, strings.Join(sorts, " "), r.Sort))
	st.assume(eq(r.T, "("+key+" "+strings.Join(ts, " ")+")"))
	return r
}

func (fe *FE) ghostArrAdd(st *State, name, idx, delta string) {
	sortA := arraySort([]string{SInt}, SInt)
	arr := fe.heapTerm(st, name, sortA)
	n := fe.newConst(st, name, sortA)
	st.assume(eq(n, "(store "+arr+" "+idx+" (+ (select "+arr+" "+idx+") "+delta+"))"))
	st.heap[name] = n
}

func (fe *FE) ghostArrSet(st *State, name, idx, val, elemSort string) {
	if name == "G_held" {
		seen := false
		for _, l := range st.locksTouched {
			if l == idx {
				seen = true
			}
		}
		if !seen {
			st.locksTouched = append(st.locksTouched, idx)
		}
	}
	sortA := arraySort([]string{SInt}, elemSort)
	arr := fe.heapTerm(st, name, sortA)
	n := fe.newConst(st, name, sortA)
	st.assume(eq(n, "(store "+arr+" "+idx+" "+val+")"))
	st.heap[name] = n
}

// applyModifies havocs the callee's frame; returns the heap base names touched.
func (fe *FE) applyModifies(st *State, cc *Ctx, con *FuncContract, name string) []string {
	if !con.ModSet {
		if con.Pure || con.Extern || con.Iface {
			return nil
		}
		// verified callee without modifies clause: treated as modifying nothing is unsound; require it
		fe.errorf("callee %s has no modifies clause", name)
		return nil
	}
	var touched []string
	items := fe.V.expandFrames(con.Modifies)
	for _, it := range items {
		touched = append(touched, fe.havocItem(st, cc, it, name)...)
	}
	return touched
}

func (v *Verifier) expandFrames(items []string) []string {
	var out []string
	for _, it := range items {
		if strings.HasPrefix(it, "frame ") {
			fr := strings.TrimSpace(it[6:])
			if fs, ok := v.C.Frames[fr]; ok {
				out = append(out, v.expandFrames(fs)...)
				continue
			}
		}
		out = append(out, it)
	}
	return out
}

// havocItem havocs one modifies item. Forms: Type.field | expr.field | mapcontents(e) | elems(e) | cell(e) | locks | wgs | ghost:<name>
func (fe *FE) havocItem(st *State, cc *Ctx, it, callee string) []string {
	it = strings.TrimSpace(it)
	switch {
	case it == "locks":
		fe.havocHeap(st, "G_held")
		return []string{"G_held"}
	case strings.HasPrefix(it, "mapsof("):
		t := fe.V.resolveType(it[7:len(it)-1], cc.pkg)
		mt, ok := t.(*types.Map)
		if t == nil || !ok {
			fe.errorf("modifies %s: cannot resolve map type", it)
			return nil
		}
		db, vb, lb := mapBases(mt)
		ks := fe.S.scalarSort(mt.Key())
		var names []string
		fe.heapSort(db, arraySort([]string{SInt, ks}, SBool))
		fe.heapSort(lb, arraySort([]string{SInt}, SInt))
		for _, n := range []string{db, lb} {
			fe.frameWholeOb(st, n, "call to "+callee)
			fe.havocHeap(st, n)
			names = append(names, n)
		}
		for _, cm := range fe.components(mt.Elem()) {
			n := vb + cm.suffix
			fe.heapSort(n, arraySort([]string{SInt, ks}, cm.sort))
			fe.frameWholeOb(st, n, "call to "+callee)
			fe.havocHeap(st, n)
			names = append(names, n)
		}
		return names
	case strings.HasPrefix(it, "elemsof("):
		t := fe.V.resolveType(it[8:len(it)-1], cc.pkg)
		if t == nil {
			fe.errorf("modifies %s: cannot resolve type", it)
			return nil
		}
		var names []string
		for _, c := range fe.components(t) {
			n := elemBase(t) + c.suffix
			fe.heapSort(n, arraySort([]string{SInt, SInt}, c.sort))
			fe.frameWholeOb(st, n, "call to "+callee)
			fe.havocHeap(st, n)
			names = append(names, n)
		}
		return names
	case strings.HasPrefix(it, "gset("):
		inner := it[5 : len(it)-1]
		parts := splitTop(inner)
		if len(parts) != 2 {
			fe.errorf("bad modifies item %q", it)
			return nil
		}
		e, err := ParseExpr(strings.TrimSpace(parts[1]))
		if err != nil {
			fe.errorf("bad modifies item %q: %v", it, err)
			return nil
		}
		cc.what = "modifies " + it
		savedOld := cc.inOld
		cc.inOld = cc.old != nil
		v := cc.eval(e)
		cc.inOld = savedOld
		name := "G_" + strings.TrimSpace(parts[0])
		fe.heapSort(name, arraySort([]string{SInt}, SInt))
		arr := fe.heapTerm(st, name, arraySort([]string{SInt}, SInt))
		fresh := fe.newConst(st, "hv", SInt)
		n := fe.newConst(st, name, arraySort([]string{SInt}, SInt))
		st.assume(eq(n, "(store "+arr+" "+v.T+" "+fresh+")"))
		st.heap[name] = n
		return []string{name}
	case strings.HasPrefix(it, "mapcontents(") || strings.HasPrefix(it, "elems(") || strings.HasPrefix(it, "cell("):
		lp := strings.Index(it, "(")
		kind := it[:lp]
		inner := it[lp+1 : len(it)-1]
		e, err := ParseExpr(inner)
		if err != nil {
			fe.errorf("bad modifies item %q: %v", it, err)
			return nil
		}
		cc.what = "modifies " + it
		savedOld := cc.inOld
		cc.inOld = cc.old != nil // frame targets are evaluated in the pre-state
		v := cc.eval(e)
		cc.inOld = savedOld
		switch kind {
		case "mapcontents":
			mt, ok := v.GoT.Underlying().(*types.Map)
			if !ok || v.Kind != VScalar {
				fe.errorf("mapcontents of non-map %v", v)
				return nil
			}
			db, vb, lb := mapBases(mt)
			ks := fe.S.scalarSort(mt.Key())
			var names []string
			fe.havocRow(st, db, []string{SInt}, arraySort([]string{ks}, SBool), v.T)
			names = append(names, db)
			for _, c := range fe.components(mt.Elem()) {
				fe.havocRow(st, vb+c.suffix, []string{SInt}, arraySort([]string{ks}, c.sort), v.T)
				names = append(names, vb+c.suffix)
			}
			fe.havocRow(st, lb, []string{SInt}, SInt, v.T)
			names = append(names, lb)
			// len stays consistent with emptiness
			ln := sel(fe.heapTerm(st, lb, arraySort([]string{SInt}, SInt)), v.T)
			st.assume("(>= " + ln + " 0)")
			return names
		case "elems":
			if v.Kind != VSlice {
				fe.errorf("elems of non-slice %v", v)
				return nil
			}
			et := v.GoT.Underlying().(*types.Slice).Elem()
			var names []string
			for _, c := range fe.components(et) {
				fe.havocRow(st, elemBase(et)+c.suffix, []string{SInt}, arraySort([]string{SInt}, c.sort), v.Arr)
				names = append(names, elemBase(et)+c.suffix)
			}
			return names
		case "cell":
			return fe.havocCell(st, v)
		}
	}
	// Type.field or expr.field
	dot := strings.LastIndex(it, ".")
	if dot < 0 {
		// bare identifier: a pointer param / captured cell
		e, err := ParseExpr(it)
		if err != nil {
			fe.errorf("bad modifies item %q", it)
			return nil
		}
		if p, ok := cc.params[it]; ok {
			return fe.havocCell(st, p)
		}
		cc.what = "modifies " + it
		return fe.havocCell(st, cc.eval(e))
	}
	head, field := it[:dot], it[dot+1:]
	first := head
	if i := strings.IndexAny(first, ".[("); i >= 0 {
		first = first[:i]
	}
	if _, isParam := cc.params[first]; isParam {
		e, err := ParseExpr(head)
		if err != nil {
			fe.errorf("bad modifies item %q", it)
			return nil
		}
		cc.what = "modifies " + it
		savedOld := cc.inOld
		cc.inOld = cc.old != nil
		base := cc.eval(e)
		cc.inOld = savedOld
		if base.Kind != VScalar || base.GoT == nil {
			fe.errorf("modifies %s: base is not a reference", it)
			return nil
		}
		st0 := derefType(base.GoT)
		if st0 == nil {
			fe.errorf("modifies %s: base is not a pointer", it)
			return nil
		}
		ft := fieldType(st0, field)
		if ft == nil {
			fe.errorf("modifies %s: no such field", it)
			return nil
		}
		var names []string
		for _, c := range fe.components(ft) {
			fe.havocRow(st, fieldBase(st0, field)+c.suffix, nil, c.sort, base.T)
			names = append(names, fieldBase(st0, field)+c.suffix)
		}
		return names
	}
	// Type.field: whole array
	t := fe.V.resolveType(head, cc.pkg)
	if t == nil {
		fe.errorf("modifies %s: cannot resolve type %q", it, head)
		return nil
	}
	ft := fieldType(t, field)
	if ft == nil {
		fe.errorf("modifies %s: type %s has no field %s", it, head, field)
		return nil
	}
	var names []string
	for _, c := range fe.components(ft) {
		n := fieldBase(t, field) + c.suffix
		fe.heapSort(n, arraySort([]string{SInt}, c.sort))
		fe.frameWholeOb(st, n, "call to "+callee)
		fe.havocHeap(st, n)
		names = append(names, n)
	}
	return names
}

func fieldType(structT types.Type, field string) types.Type {
	su, ok := structT.Underlying().(*types.Struct)
	if !ok {
		return nil
	}
	for i := 0; i < su.NumFields(); i++ {
		if su.Field(i).Name() == field {
			return su.Field(i).Type()
		}
	}
	return nil
}

func (fe *FE) havocCell(st *State, p Val) []string {
	var loc *Loc
	switch p.Kind {
	case VLoc:
		loc = p.Loc
	case VScalar:
		if p.GoT == nil || derefType(p.GoT) == nil {
			fe.errorf("modifies: %v is not a pointer", p)
			return nil
		}
		loc = fe.asLoc(p, p.GoT)
	default:
		fe.errorf("modifies: unsupported cell %v", p)
		return nil
	}
	var names []string
	if len(loc.Idx) > 0 {
		fe.frameOb(st, loc.Base, loc.Idx[0])
	}
	for _, c := range fe.components(loc.T) {
		name := loc.Base + c.suffix
		sortA := arraySort(idxSorts(len(loc.Idx), ""), c.sort)
		arr := fe.heapTerm(st, name, sortA)
		fresh := fe.newConst(st, "hv", c.sort)
		n := fe.newConst(st, name, sortA)
		st.assume(eq(n, storeN(arr, loc.Idx, fresh)))
		st.heap[name] = n
		names = append(names, name)
	}
	if isSliceType(loc.T) {
		v := fe.load(st, loc)
		_ = v
	}
	return names
}

// havocRow: heap[name][idx] := fresh (row or scalar).
func (fe *FE) havocRow(st *State, name string, _ []string, rowSort string, idx string) {
	if idx != "dummy" {
		fe.loopFrameOb(st, name, []string{idx})
		fe.frameOb(st, name, idx)
	}
	sortA := "(Array Int " + rowSort + ")"
	arr := fe.heapTerm(st, name, sortA)
	fresh := fe.newConst(st, "hv", rowSort)
	n := fe.newConst(st, name, sortA)
	st.assume(eq(n, "(store "+arr+" "+idx+" "+fresh+")"))
	st.heap[name] = n
}

// ---------------------------------------------------------------------------
// natives: sync primitives

func (fe *FE) execNative(st *State, ins ssa.Instruction, callee *ssa.Function, ci *callInfo, res ssa.Value, site, mode string) (done bool, cont bool) {
	full := callee.String()
	switch full {
	case "(*sync.Mutex).Lock", "(*sync.RWMutex).Lock":
		m, _ := fe.asRef(ci.args[0])
		held := sel(fe.heapTerm(st, "G_held", arraySort([]string{SInt}, SBool)), m)
		fe.addOb(st, "lock", "not-held@"+site, nil, not(held), "Lock of a mutex this activation already holds would deadlock")
		fe.ghostArrSet(st, "G_held", m, "true", SBool)
		fe.onAcquire(st, m, site)
		fe.runHooks(st, fe.matchHooks(ci, mode), ci, "after", nil, nil, site)
		return true, true
	case "(*sync.Mutex).Unlock", "(*sync.RWMutex).Unlock":
		m, _ := fe.asRef(ci.args[0])
		held := sel(fe.heapTerm(st, "G_held", arraySort([]string{SInt}, SBool)), m)
		fe.addOb(st, "lock", "held-at-unlock@"+site, nil, held, "Unlock of a mutex that is not held is a fatal error")
		fe.runHooks(st, fe.matchHooks(ci, mode), ci, "before", nil, nil, site)
		fe.onRelease(st, m, site)
		fe.ghostArrSet(st, "G_held", m, "false", SBool)
		return true, true
	case "(*github.com/antlr/antlr4/runtime/Go/antlr.ParseTreeWalker).Walk":
		return true, fe.execAntlrWalk(st, ins, ci, site)
	case "fmt.Sprintf", "fmt.Errorf", "errors.New":
		return true, fe.execFmt(st, ins, callee, ci, res, site, full)
	case "sort.SliceStable", "sort.Slice":
		return true, fe.execSliceStable(st, ins, callee, ci, site)
	case "(*sync.WaitGroup).Add":
		w, _ := fe.asRef(ci.args[0])
		k := fe.intOf(ci.args[1])
		fe.runHooks(st, fe.matchHooks(ci, mode), ci, "before", nil, nil, site)
		fe.addOb(st, "wg", "add-nonneg@"+site, nil, "(>= "+k+" 0)", "WaitGroup.Add with a negative delta can panic")
		fe.ghostArrAdd(st, "G_wg_added", w, k)
		fe.runHooks(st, fe.matchHooks(ci, mode), ci, "after", nil, nil, site)
		return true, true
	case "(*sync.WaitGroup).Done":
		w, _ := fe.asRef(ci.args[0])
		fe.runHooks(st, fe.matchHooks(ci, mode), ci, "before", nil, nil, site)
		fe.ghostArrAdd(st, "G_wg_done", w, "1")
		fe.runHooks(st, fe.matchHooks(ci, mode), ci, "after", nil, nil, site)
		return true, true
	case "(*sync.WaitGroup).Wait":
		w, _ := fe.asRef(ci.args[0])
		fe.runHooks(st, fe.matchHooks(ci, mode), ci, "before", nil, nil, site)
		added := sel(fe.heapTerm(st, "G_wg_added", arraySort([]string{SInt}, SInt)), w)
		forked := sel(fe.heapTerm(st, "G_wg_forked", arraySort([]string{SInt}, SInt)), w)
		fe.addOb(st, "wg", "wait-balanced@"+site, nil, eq(added, forked), "Wait returns exactly when all forked tasks are done: the Add total must equal the number of tasks forked on this group (each calls Done once)")
		// join: effects of the joined tasks are now stable
		var rest []liveTask
		for _, lt := range st.live {
			if lt.wg != "" && fe.sameRef(st, lt.wg, w) {
				for _, m := range lt.mods {
					if strings.HasPrefix(m, "G_wg_") || m == "G_held" {
						continue
					}
				}
				continue
			}
			rest = append(rest, lt)
		}
		st.live = rest
		st.unstable = map[string]bool{}
		for _, lt := range st.live {
			for _, m := range lt.mods {
				st.unstable[m] = true
			}
		}
		fe.ghostArrSet(st, "G_wg_waited", w, forked, SInt)
		fe.runHooks(st, fe.matchHooks(ci, mode), ci, "after", nil, nil, site)
		return true, true
	}
	return false, true
}

func (fe *FE) sameRef(st *State, a, b string) bool { return a == b }

// lockOwner: m is `(sub_T_lock owner)` for a lock field with a declared monitor invariant.
func (fe *FE) lockOwner(m string) (*lockInvInfo, string) {
	if !strings.HasPrefix(m, "(sub_") {
		return nil, ""
	}
	i := strings.Index(m, " ")
	if i < 0 {
		return nil, ""
	}
	fn := m[1:i]
	li := fe.V.lockInv[fn]
	if li == nil {
		return nil, ""
	}
	return li, strings.TrimSuffix(m[i+1:], ")")
}

// onAcquire: other goroutines may have changed the state this lock protects; it satisfies the lock's invariant.
func (fe *FE) onAcquire(st *State, m, site string) {
	li, owner := fe.lockOwner(m)
	if li == nil || isFreshRefTerm(owner) {
		return
	}
	for _, g := range li.guarded {
		for _, c := range fe.components(g.t) {
			name := g.base + c.suffix
			sortA := arraySort([]string{SInt}, c.sort)
			arr := fe.heapTerm(st, name, sortA)
			fresh := fe.newConst(st, "acq", c.sort)
			n := fe.newConst(st, name, sortA)
			st.assume(eq(n, "(store "+arr+" "+owner+" "+fresh+")"))
			st.heap[name] = n
		}
		loc := &Loc{Base: g.base, Idx: []string{owner}, T: g.t}
		v := fe.load(st, loc)
		// contents reachable through a guarded slice / map are shared too
		if v.Kind == VSlice {
			et := g.t.Underlying().(*types.Slice).Elem()
			for _, c := range fe.components(et) {
				fe.havocRowNoFrame(st, elemBase(et)+c.suffix, arraySort([]string{SInt}, c.sort), v.Arr)
			}
		}
	}
	if li.inv != nil {
		c := &Ctx{fe: fe, st: st, binds: map[string]Val{"self": scalar(owner, SInt, types.NewPointer(li.ownerT))}, params: map[string]Val{}, pkg: pkgOfType(li.ownerT)}
		fe.assumeExpr(st, c, li.inv.E, "lock invariant")
	}
}

// onRelease: the lock's invariant must hold again.
func (fe *FE) onRelease(st *State, m, site string) {
	li, owner := fe.lockOwner(m)
	if li == nil || li.inv == nil || isFreshRefTerm(owner) {
		return
	}
	c := &Ctx{fe: fe, st: st, binds: map[string]Val{"self": scalar(owner, SInt, types.NewPointer(li.ownerT))}, params: map[string]Val{}, pkg: pkgOfType(li.ownerT)}
	c.what = "lock invariant at unlock"
	c.side = nil
	t := c.boolTerm(c.eval(li.inv.E))
	for _, s := range c.side {
		st.assume(s)
	}
	fe.addOb(st, "lockinv", "unlock@"+site, nil, t, li.inv.Src)
}

func (fe *FE) havocRowNoFrame(st *State, name, rowSort, idx string) {
	sortA := "(Array Int " + rowSort + ")"
	arr := fe.heapTerm(st, name, sortA)
	fresh := fe.newConst(st, "hv", rowSort)
	n := fe.newConst(st, name, sortA)
	st.assume(eq(n, "(store "+arr+" "+idx+" "+fresh+")"))
	st.heap[name] = n
}

// ---------------------------------------------------------------------------
// builtins

func (fe *FE) execBuiltin(st *State, b *ssa.Builtin, com *ssa.CallCommon, res ssa.Value, site string) bool {
	var args []Val
	for _, a := range com.Args {
		args = append(args, fe.valOf(st, a))
	}
	intT := types.Typ[types.Int]
	mkInt := func(t string) Val {
		if fe.S.BV {
			return scalar("((_ int2bv 64) "+t+")", bvSort(64), intT)
		}
		return scalar(t, SInt, intT)
	}
	switch b.Name() {
	case "len":
		a := args[0]
		switch {
		case a.Kind == VSlice:
			st.vals[res] = mkInt(a.Len)
		case a.Kind == VScalar && a.Sort == SStr:
			st.vals[res] = mkInt("(strlen " + a.T + ")")
		case a.Kind == VScalar && a.GoT != nil:
			if mt, ok := com.Args[0].Type().Underlying().(*types.Map); ok {
				fe.guardedAccess(st, a.T, "maplen", site)
				_, _, lb := mapBases(mt)
				ln := sel(fe.heapTerm(st, lb, arraySort([]string{SInt}, SInt)), a.T)
				fe.mapLenAxioms(st, mt, a.T, ln)
				st.vals[res] = mkInt(ite(eq(a.T, "0"), "0", ln))
			} else {
				fe.errorf("len of %v", a)
				return false
			}
		default:
			fe.errorf("len of %v", a)
			return false
		}
		return true
	case "cap":
		if args[0].Kind == VSlice {
			st.vals[res] = mkInt(args[0].Cap)
			return true
		}
	case "append":
		ci := &callInfo{args: args, display: []string{"append", "append:" + shortPkgType(res.Type())}}
		hooks := fe.matchHooks(ci, "call")
		fe.runHooks(st, hooks, ci, "before", nil, nil, site)
		ok := fe.execAppend(st, args, com, res, site)
		if ok && len(hooks) > 0 {
			for _, f := range append([]*State{st}, fe.pendingFork...) {
				fe.runHooks(f, hooks, ci, "after", []Val{f.vals[res]}, nil, site)
			}
		}
		return ok
	case "delete":
		m := args[0]
		mt := com.Args[0].Type().Underlying().(*types.Map)
		fe.guardedAccess(st, m.T, "mapdelete", site)
		fe.mapDelete(st, mt, m.T, args[1])
		return true
	case "print", "println":
		return true
	case "recover":
		// only meaningful inside deferred closures; handled by their contracts
		rv := fe.newConst(st, "recovered", SInt)
		st.assume("(>= " + rv + " 0)")
		st.vals[res] = scalar(rv, SInt, res.Type())
		st.ghosts["$recovered"] = scalar(rv, SInt, res.Type())
		return true
	case "ssa:wrapnilchk":
		st.vals[res] = args[0]
		return true
	}
	fe.errorf("unsupported builtin %s", b.Name())
	return false
}

// mapLenAxioms ties len(m) to the domain.
func (fe *FE) mapLenAxioms(st *State, mt *types.Map, m, ln string) {
	db, _, _ := mapBases(mt)
	ks := fe.S.scalarSort(mt.Key())
	dom := sel(fe.heapTerm(st, db, arraySort([]string{SInt, ks}, SBool)), m)
	st.assume("(>= " + ln + " 0)")
	st.assume(fmt.Sprintf("(= (= %s 0) (= %s ((as const (Array %s Bool)) false)))", ln, dom, ks))
}

func (fe *FE) mapDelete(st *State, mt *types.Map, m string, key Val) {
	db, _, lb := mapBases(mt)
	fe.loopFrameOb(st, db, []string{m})
	fe.frameOb(st, db, m)
	ks := fe.S.scalarSort(mt.Key())
	sortD := arraySort([]string{SInt, ks}, SBool)
	h := fe.heapTerm(st, db, sortD)
	was := sel(h, m, key.T)
	n := fe.newConst(st, db, sortD)
	st.assume(eq(n, storeN(h, []string{m, key.T}, "false")))
	st.heap[db] = n
	sortL := arraySort([]string{SInt}, SInt)
	hl := fe.heapTerm(st, lb, sortL)
	nl := fe.newConst(st, lb, sortL)
	st.assume(eq(nl, "(store "+hl+" "+m+" "+ite(was, "(- (select "+hl+" "+m+") 1)", "(select "+hl+" "+m+")")+")"))
	st.heap[lb] = nl
}

func (fe *FE) execAppend(st *State, args []Val, com *ssa.CallCommon, res ssa.Value, site string) bool {
	s, t := args[0], args[1]
	if s.Kind == VScalar && s.T == "0" {
		s = Val{Kind: VSlice, Arr: "0", Off: "0", Len: "0", Cap: "0", GoT: com.Args[0].Type()}
	}
	if t.Kind == VScalar && t.T == "0" {
		t = Val{Kind: VSlice, Arr: "0", Off: "0", Len: "0", Cap: "0", GoT: com.Args[1].Type()}
	}
	if s.Kind != VSlice || t.Kind != VSlice {
		fe.errorf("append on non-slices %v %v", s, t)
		return false
	}
	et := res.Type().Underlying().(*types.Slice).Elem()
	comps := fe.components(et)
	if comps == nil {
		fe.errorf("append: unsupported element type %s", et)
		return false
	}
	newLen := "(+ " + s.Len + " " + t.Len + ")"
	fits := "(<= " + newLen + " " + s.Cap + ")"
	// the appended elements are read before anything is written
	k := -1
	fmt.Sscanf(t.Len, "%d", &k)
	if strings.HasPrefix(t.Len, "(") {
		k = -1
	}
	// path A: in place
	a := st.clone()
	a.assume(fits)
	a.path = append(a.path, "append-inplace@"+site)
	fe.appendWrite(a, s.Arr, "(+ "+s.Off+" "+s.Len+")", t, et, k, false, s)
	a.vals[res] = Val{Kind: VSlice, Arr: s.Arr, Off: s.Off, Len: newLen, Cap: s.Cap, GoT: res.Type()}
	// path B: reallocation
	st.assume(not(fits))
	st.path = append(st.path, "append-realloc@"+site)
	arr := fe.freshRef(st)
	ncap := fe.newConst(st, "newcap", SInt)
	st.assume(and("(>= "+ncap+" "+newLen+")", "(<= "+ncap+" 281474976710656)"))
	fe.appendWrite(st, arr, s.Len, t, et, k, true, s)
	st.vals[res] = Val{Kind: VSlice, Arr: arr, Off: "0", Len: newLen, Cap: ncap, GoT: res.Type()}
	// continue both paths: caller continues with st; path A must be continued by re-running the rest
	fe.pendingFork = append(fe.pendingFork, a)
	return true
}

// appendWrite writes t's elements at arr[at...]; if realloc, the row of arr first receives a copy of s.
func (fe *FE) appendWrite(st *State, arr, at string, t Val, et types.Type, k int, realloc bool, s Val) {
	if !realloc {
		fe.loopFrameOb(st, elemBase(et), []string{arr})
		fe.frameOb(st, elemBase(et), arr)
	}
	for _, c := range fe.components(et) {
		name := elemBase(et) + c.suffix
		sortA := arraySort([]string{SInt, SInt}, c.sort)
		h := fe.heapTerm(st, name, sortA)
		row := "(select " + h + " " + arr + ")"
		if realloc {
			r := fe.newConst(st, "row", "(Array Int "+c.sort+")")
			st.assume(fmt.Sprintf("(forall ((i Int)) (! (=> (and (<= 0 i) (< i %s)) (= (select %s i) (select (select %s %s) (+ %s i)))) :pattern ((select %s i))))", s.Len, r, h, s.Arr, s.Off, r))
			row = r
		}
		srcRow := "(select " + h + " " + t.Arr + ")"
		if k >= 0 && k <= 4 {
			for j := 0; j < k; j++ {
				row = fmt.Sprintf("(store %s (+ %s %d) (select %s (+ %s %d)))", row, at, j, srcRow, t.Off, j)
			}
		} else {
			r2 := fe.newConst(st, "row", "(Array Int "+c.sort+")")
			st.assume(fmt.Sprintf("(forall ((i Int)) (! (= (select %s i) (ite (and (<= %s i) (< i (+ %s %s))) (select %s (+ %s (- i %s))) (select %s i))) :pattern ((select %s i))))", r2, at, at, t.Len, srcRow, t.Off, at, row, r2))
			row = r2
		}
		n := fe.newConst(st, name, sortA)
		st.assume(eq(n, "(store "+h+" "+arr+" "+row+")"))
		st.heap[name] = n
	}
}

// ---------------------------------------------------------------------------
// maps

func (fe *FE) execLookup(st *State, x *ssa.Lookup, site string) bool {
	m := fe.valOf(st, x.X)
	k := fe.valOf(st, x.Index)
	mt, ok := x.X.Type().Underlying().(*types.Map)
	if !ok {
		fe.errorf("unsupported Lookup on %s", x.X.Type())
		return false
	}
	if gl, isG := x.X.(*ssa.UnOp); isG {
		if g, ok := gl.X.(*ssa.Global); ok {
			fe.noteGlobalMapRead(st, g, m)
		}
	}
	fe.guardedAccess(st, m.T, "maplookup", site)
	db, vb, _ := mapBases(mt)
	ks := fe.S.scalarSort(mt.Key())
	domH := fe.heapTerm(st, db, arraySort([]string{SInt, ks}, SBool))
	// the nil map has no keys (stores to it panic)
	st.assume("(= (select " + domH + " 0) ((as const (Array " + ks + " Bool)) false))")
	in := sel(domH, m.T, k.T)
	in = and("(not (= "+m.T+" 0))", in)
	comps := fe.components(mt.Elem())
	if comps == nil {
		fe.errorf("unsupported map value type %s", mt.Elem())
		return false
	}
	get := func(c comp) string {
		return sel(fe.heapTerm(st, vb+c.suffix, arraySort([]string{SInt, ks}, c.sort)), m.T, k.T)
	}
	var v Val
	if len(comps) == 1 {
		v = scalar(ite(in, get(comps[0]), fe.zeroTerm(comps[0].sort)), comps[0].sort, mt.Elem())
		// name it
		n := fe.newConst(st, "lk", comps[0].sort)
		st.assume(eq(n, v.T))
		v.T = n
		fe.assumeClosed(st, v)
	} else {
		v = Val{Kind: VSlice, Arr: ite(in, get(comps[0]), "0"), Off: ite(in, get(comps[1]), "0"), Len: ite(in, get(comps[2]), "0"), Cap: ite(in, get(comps[3]), "0"), GoT: mt.Elem()}
		fe.assumeSliceWF(st, v)
	}
	if x.CommaOk {
		st.vals[x] = Val{Kind: VTuple, Elems: []Val{v, scalar(in, SBool, types.Typ[types.Bool])}, GoT: x.Type()}
	} else {
		st.vals[x] = v
	}
	return true
}

func (fe *FE) noteGlobalMapRead(st *State, g *ssa.Global, m Val) {}

func (fe *FE) execMapUpdate(st *State, x *ssa.MapUpdate, site string) bool {
	m := fe.valOf(st, x.Map)
	k := fe.valOf(st, x.Key)
	v := fe.valOf(st, x.Value)
	mt := x.Map.Type().Underlying().(*types.Map)
	fe.safety(st, "(not (= "+m.T+" 0))", "nil-map-store@"+site, "assignment to entry in nil map")
	fe.disciplineMapStore(st, m, mt, site)
	fe.guardedAccess(st, m.T, "mapstore", site)
	fe.mapStore(st, mt, m.T, k, v)
	return true
}

func (fe *FE) mapStore(st *State, mt *types.Map, m string, k, v Val) {
	db, vb, lb := mapBases(mt)
	fe.loopFrameOb(st, db, []string{m})
	fe.frameOb(st, db, m)
	ks := fe.S.scalarSort(mt.Key())
	sortD := arraySort([]string{SInt, ks}, SBool)
	h := fe.heapTerm(st, db, sortD)
	was := sel(h, m, k.T)
	n := fe.newConst(st, db, sortD)
	st.assume(eq(n, storeN(h, []string{m, k.T}, "true")))
	st.heap[db] = n
	comps := fe.components(mt.Elem())
	put := func(c comp, t string) {
		name := vb + c.suffix
		sortV := arraySort([]string{SInt, ks}, c.sort)
		hv := fe.heapTerm(st, name, sortV)
		nv := fe.newConst(st, name, sortV)
		st.assume(eq(nv, storeN(hv, []string{m, k.T}, t)))
		st.heap[name] = nv
	}
	if len(comps) == 1 {
		if v.Kind == VLoc || v.Kind == VClosure {
			r, _ := fe.asRef(v)
			v = scalar(r, SInt, mt.Elem())
		}
		put(comps[0], v.T)
	} else if len(comps) == 4 && v.Kind == VSlice {
		put(comps[0], v.Arr)
		put(comps[1], v.Off)
		put(comps[2], v.Len)
		put(comps[3], v.Cap)
	} else {
		fe.errorf("unsupported map store of %v", v)
	}
	sortL := arraySort([]string{SInt}, SInt)
	hl := fe.heapTerm(st, lb, sortL)
	nl := fe.newConst(st, lb, sortL)
	st.assume(eq(nl, "(store "+hl+" "+m+" "+ite(was, "(select "+hl+" "+m+")", "(+ (select "+hl+" "+m+") 1)")+")"))
	st.heap[lb] = nl
}

// range over a map: ghost visited set; each Next picks an arbitrary unvisited key.
func (fe *FE) execRange(st *State, x *ssa.Range) bool {
	m := fe.valOf(st, x.X)
	mt, ok := x.X.Type().Underlying().(*types.Map)
	if !ok {
		fe.errorf("range over %s unsupported", x.X.Type())
		return false
	}
	fe.guardedAccess(st, m.T, "maprange", fe.curPos)
	ks := fe.S.scalarSort(mt.Key())
	id := fmt.Sprintf("%d", len(st.ghosts))
	vis := "$visited_" + x.Name()
	st.ghosts[vis] = scalar("((as const (Array "+ks+" Bool)) false)", "(Array "+ks+" Bool)", nil)
	st.ghosts["visited"] = st.ghosts[vis]
	st.ghosts["itercount"] = scalar("0", SInt, types.Typ[types.Int])
	if m.T != "0" {
		db, _, _ := mapBases(mt)
		st.ghosts["$iterdom_"+x.Name()] = scalar(sel(fe.heapTerm(st, db, arraySort([]string{SInt, ks}, SBool)), m.T), "(Array "+ks+" Bool)", nil)
		// `rangedom`: key set of the most recently started map range, as it was when the range began
		st.ghosts["rangedom"] = st.ghosts["$iterdom_"+x.Name()]
	}
	st.vals[x] = Val{Kind: VIter, IterMap: m.T, IterVis: vis, IterKT: mt.Key(), IterVT: mt.Elem(), IterID: id, GoT: x.X.Type()}
	return true
}

func (fe *FE) execNext(st *State, x *ssa.Next, b *ssa.BasicBlock) bool {
	it := fe.valOf(st, x.Iter)
	if it.Kind != VIter {
		fe.errorf("next on non-iterator")
		return false
	}
	mt := it.GoT.Underlying().(*types.Map)
	db, vb, _ := mapBases(mt)
	ks := fe.S.scalarSort(mt.Key())
	vis := st.ghosts[it.IterVis]
	dom := sel(fe.heapTerm(st, db, arraySort([]string{SInt, ks}, SBool)), it.IterMap)
	if it.IterMap == "0" {
		dom = "((as const (Array " + ks + " Bool)) false)"
	}
	if d0, ok := st.ghosts["$iterdom_"+x.Iter.Name()]; ok {
		fe.addOb(st, "range", "map-unmodified@"+x.Iter.Name(), nil, eq(dom, d0.T), "the key set of a map is not changed while it is being ranged over (needed for: the loop body runs exactly len(m) times)")
	}
	okT := fe.newConst(st, "next_ok", SBool)
	k := fe.newConst(st, "next_key", ks)
	{
		// Go semantics (assumed): a range over an unmodified map yields each key exactly once, i.e. len(m) keys
		_, _, lb := mapBases(mt)
		cnt := st.ghosts["itercount"]
		ln := "0"
		if it.IterMap != "0" {
			ln = ite(eq(it.IterMap, "0"), "0", sel(fe.heapTerm(st, lb, arraySort([]string{SInt}, SInt)), it.IterMap))
		}
		st.assume(implies(not(okT), eq(cnt.T, ln)))
		st.assume(implies(okT, "(< "+cnt.T+" "+ln+")"))
		nc := fe.newConst(st, "itercount", SInt)
		st.assume(eq(nc, ite(okT, "(+ "+cnt.T+" 1)", cnt.T)))
		st.ghosts["itercount"] = scalar(nc, SInt, types.Typ[types.Int])
	}
	// ok <=> some key of dom is unvisited; then k is such a key
	st.assume(implies(okT, and(sel(dom, k), not(sel(vis.T, k)))))
	st.assume(implies(not(okT), fmt.Sprintf("(forall ((q %s)) (! (=> (select %s q) (select %s q)) :pattern ((select %s q))))", ks, dom, vis.T, dom)))
	if it.IterMap != "0" {
		st.assume(implies("(= "+it.IterMap+" 0)", not(okT)))
	}
	nv := fe.newConst(st, "visited", "(Array "+ks+" Bool)")
	st.assume(eq(nv, ite(okT, "(store "+vis.T+" "+k+" true)", vis.T)))
	st.ghosts[it.IterVis] = scalar(nv, vis.Sort, nil)
	st.ghosts["visited"] = st.ghosts[it.IterVis]
	st.ghosts["lastkey"] = scalar(k, ks, mt.Key())
	var v Val
	comps := fe.components(mt.Elem())
	if len(comps) == 1 {
		v = scalar(sel(fe.heapTerm(st, vb, arraySort([]string{SInt, ks}, comps[0].sort)), it.IterMap, k), comps[0].sort, mt.Elem())
		n := fe.newConst(st, "next_val", comps[0].sort)
		st.assume(eq(n, v.T))
		v.T = n
		fe.assumeClosed(st, v)
	} else {
		v = fe.zeroVal(mt.Elem())
	}
	st.vals[x] = Val{Kind: VTuple, Elems: []Val{scalar(okT, SBool, types.Typ[types.Bool]), scalar(k, ks, mt.Key()), v}, GoT: x.Type()}
	return true
}

// execSliceStable: sort.SliceStable(x, less) with `less` a closure whose contract has a `returns` expression.
// Assumed semantics (extern, listed in the trusted base): the elements of x are permuted in place,
// afterwards no later element is less than an earlier one, and elements that compare equal keep
// their relative order. The permutation is exposed to contracts as ghost arrays perm / iperm
// (new[i] == old[perm[i]]).
func (fe *FE) execSliceStable(st *State, ins ssa.Instruction, callee *ssa.Function, ci *callInfo, site string) bool {
	fe.usedExt["extern sort.SliceStable (native model: in-place stable permutation sorted w.r.t. the inlined less closure)"] = true
	call, ok := ins.(ssa.CallInstruction)
	if !ok {
		fe.errorf("SliceStable: not a call")
		return false
	}
	com := call.Common()
	mi, ok := com.Args[0].(*ssa.MakeInterface)
	if !ok {
		fe.errorf("SliceStable: first argument is not a direct slice")
		return false
	}
	sl := fe.valOf(st, mi.X)
	if sl.Kind != VSlice {
		fe.errorf("SliceStable: first argument is not a slice: %v", sl)
		return false
	}
	cl := fe.valOf(st, com.Args[1])
	if cl.Kind != VClosure {
		fe.errorf("SliceStable: less is not a closure")
		return false
	}
	con := fe.V.contractFor(cl.Fn)
	if con == nil || con.Returns == nil {
		fe.errorf("SliceStable: closure %s has no contract with a `returns` expression", cl.Fn.Name())
		fe.addStaticFailure("no-contract", sanitize(cl.Fn.Name()), "less closure has no `returns` contract")
		return true
	}
	et := mi.X.Type().Underlying().(*types.Slice).Elem()
	comps := fe.components(et)
	if len(comps) != 1 {
		fe.errorf("SliceStable: unsupported element type %s", et)
		return false
	}
	lessAt := func(a, b string) string {
		lci := &callInfo{fn: cl.Fn, binds: map[string]Val{}}
		for i, fv := range cl.Fn.FreeVars {
			if i < len(cl.Binds) {
				lci.binds[fv.Name()] = cl.Binds[i]
			}
		}
		lci.names = []string{cl.Fn.Params[0].Name(), cl.Fn.Params[1].Name()}
		lci.args = []Val{scalar(a, SInt, types.Typ[types.Int]), scalar(b, SInt, types.Typ[types.Int])}
		cc := fe.calleeCtx(st, lci)
		cc.qdepth = 1
		cc.what = "less closure"
		return cc.boolTerm(cc.eval(con.Returns))
	}
	n := sl.Len
	// closure preconditions hold for all index pairs
	{
		lci := &callInfo{fn: cl.Fn, binds: map[string]Val{}}
		for i, fv := range cl.Fn.FreeVars {
			if i < len(cl.Binds) {
				lci.binds[fv.Name()] = cl.Binds[i]
			}
		}
		lci.names = []string{cl.Fn.Params[0].Name(), cl.Fn.Params[1].Name()}
		lci.args = []Val{scalar("q_a", SInt, types.Typ[types.Int]), scalar("q_b", SInt, types.Typ[types.Int])}
		cc := fe.calleeCtx(st, lci)
		cc.qdepth = 1
		for i, r := range con.Requires {
			cc.what = "less requires"
			t := cc.boolTerm(cc.eval(r.E))
			fe.addOb(st, "call-pre", fmt.Sprintf("less.%s@%s", clauseLabel(r, i), site), nil,
				fmt.Sprintf("(forall ((q_a Int) (q_b Int)) (=> (and (<= 0 q_a) (< q_a %s) (<= 0 q_b) (< q_b %s)) %s))", n, n, t), r.Src)
		}
	}
	name := elemBase(et)
	sortA := arraySort([]string{SInt, SInt}, comps[0].sort)
	h := fe.heapTerm(st, name, sortA)
	oldRow := "(select " + h + " " + sl.Arr + ")"
	newRow := fe.newConst(st, "sortedrow", "(Array Int "+comps[0].sort+")")
	pi := fe.newConst(st, "perm", "(Array Int Int)")
	ipi := fe.newConst(st, "iperm", "(Array Int Int)")
	nh := fe.newConst(st, name, sortA)
	st.assume(eq(nh, "(store "+h+" "+sl.Arr+" "+newRow+")"))
	st.heap[name] = nh
	off := sl.Off
	hi := "(+ " + off + " " + n + ")"
	// absolute indices a in [off, off+n): new[a] == old[P[a]], P a bijection of that range (inverse IP)
	st.assume(fmt.Sprintf("(forall ((a Int)) (! (=> (and (<= %s a) (< a %s)) (and (<= %s (select %s a)) (< (select %s a) %s) (= (select %s a) (select %s (select %s a))) (= (select %s (select %s a)) a))) :pattern ((select %s a)) :pattern ((select %s a))))",
		off, hi, off, pi, pi, hi, newRow, oldRow, pi, ipi, pi, pi, newRow))
	st.assume(fmt.Sprintf("(forall ((b Int)) (! (=> (and (<= %s b) (< b %s)) (and (<= %s (select %s b)) (< (select %s b) %s) (= (select %s (select %s b)) b))) :pattern ((select %s b))))",
		off, hi, off, ipi, ipi, hi, pi, ipi, ipi))
	st.assume(fmt.Sprintf("(forall ((k Int)) (! (=> (or (< k %s) (>= k %s)) (= (select %s k) (select %s k))) :pattern ((select %s k))))", off, hi, newRow, oldRow, newRow))
	// less is evaluated on relative indices (the closure indexes the slice)
	rel := func(a string) string {
		if off == "0" {
			return a
		}
		return "(- " + a + " " + off + ")"
	}
	st.assume(fmt.Sprintf("(forall ((q_i Int) (q_j Int)) (=> (and (<= %s q_i) (< q_i q_j) (< q_j %s)) (not %s)))", off, hi, lessAt(rel("q_j"), rel("q_i"))))
	st.assume(fmt.Sprintf("(forall ((q_i Int) (q_j Int)) (=> (and (<= %s q_i) (< q_i q_j) (< q_j %s) (not %s)) (< (select %s q_i) (select %s q_j))))", off, hi, lessAt(rel("q_i"), rel("q_j")), pi, pi))
	st.ghosts["perm"] = scalar(pi, "(Array Int Int)", nil)
	st.ghosts["iperm"] = scalar(ipi, "(Array Int Int)", nil)
	hooks := fe.matchHooks(ci, "call")
	fe.runHooks(st, hooks, ci, "after", nil, nil, site)
	return true
}

// execFmt: fmt.Sprintf / fmt.Errorf / errors.New with the ghost `cite` (C20): the line an error message cites is
// the integer bound to the first %d of a format that starts with "line %d" (-1 otherwise).
// Assumed (extern): these functions are total, have no effect on modelled state, errors are fresh and non-nil.
func (fe *FE) execFmt(st *State, ins ssa.Instruction, callee *ssa.Function, ci *callInfo, res ssa.Value, site, full string) bool {
	fe.usedExt["extern "+full+" (native model: total, pure, fresh non-nil error; ghost cite/fmtline = first %d of a format starting with \"line %d\"; \"%s%s\" of two strings is their concatenation)"] = true
	call := ins.(ssa.CallInstruction)
	com := call.Common()
	hooks := fe.matchHooks(ci, "call")
	fe.runHooks(st, hooks, ci, "before", nil, nil, site)
	lineOf := func() string {
		// term for the cited line of a formatted string built by this call
		k, ok := com.Args[0].(*ssa.Const)
		if !ok || k.Value == nil {
			return ""
		}
		f := constant.StringVal(k.Value)
		if !strings.HasPrefix(f, "line %d") || len(ci.args) < 2 || ci.args[1].Kind != VSlice {
			return "(- 1)"
		}
		sl := ci.args[1]
		et := com.Args[1].Type().Underlying().(*types.Slice).Elem()
		h := fe.heapTerm(st, elemBase(et), arraySort([]string{SInt, SInt}, SInt))
		r0 := sel(h, sl.Arr, sl.Off)
		if fe.S.BV {
			fe.globalDecl("unbox_int", "(declare-fun unbox_int (Int) (_ BitVec 64))")
			return fe.bv2intSigned("(unbox_int "+r0+")", "(_ BitVec 64)")
		}
		fe.globalDecl("unbox_int", "(declare-fun unbox_int (Int) Int)")
		return "(unbox_int " + r0 + ")"
	}
	var out Val
	switch full {
	case "fmt.Sprintf":
		s := fe.newConst(st, "fmt", SStr)
		if l := lineOf(); l != "" {
			st.assume(eq("(fmtline "+s+")", l))
		}
		// "%s%s" applied to two strings is their concatenation
		if k, ok := com.Args[0].(*ssa.Const); ok && k.Value != nil && constant.StringVal(k.Value) == "%s%s" && len(ci.args) >= 2 && ci.args[1].Kind == VSlice {
			sl := ci.args[1]
			et := com.Args[1].Type().Underlying().(*types.Slice).Elem()
			h := fe.heapTerm(st, elemBase(et), arraySort([]string{SInt, SInt}, SInt))
			r0 := sel(h, sl.Arr, sl.Off)
			r1 := sel(h, sl.Arr, "(+ "+sl.Off+" 1)")
			st.assume(implies(and(eq(sl.Len, "2"), "(not (= "+r0+" 0))", "(not (= "+r1+" 0))", eq("(ikind "+r0+")", "24"), eq("(ikind "+r1+")", "24")), eq(s, "(strcat (istr "+r0+") (istr "+r1+"))")))
		}
		out = scalar(s, SStr, types.Typ[types.String])
	case "fmt.Errorf":
		r := fe.freshRef(st)
		if l := lineOf(); l != "" {
			st.assume(eq("(cite "+r+")", l))
		}
		out = scalar(r, SInt, res.Type())
	case "errors.New":
		r := fe.freshRef(st)
		if ci.args[0].Kind == VScalar {
			st.assume(eq("(cite "+r+")", "(fmtline "+ci.args[0].T+")"))
		}
		out = scalar(r, SInt, res.Type())
	}
	if res != nil {
		st.vals[res] = out
	}
	fe.runHooks(st, hooks, ci, "after", []Val{out}, nil, site)
	return true
}

// execAntlrWalk: assumed model of lexing+parsing+walking a rule text (C10, C08). Derived per function from the SSA
// def-use chains: the text is the argument of antlr.NewInputStream; GengineErrorListener objects attached to a
// recognizer derived from NewgengineLexer / NewgengineParser are the lexer / parser listeners; the tree listener
// is the GengineParserListener passed to Walk, built over a KnowledgeContext kc. Effects at the Walk call:
//
//	lexer listener  el: len(el.GrammarErrors) > 0 <=> LexErrs(text)       (only if one is attached)
//	parser listener el: len(el.GrammarErrors) > 0 <=> SynErrs(text)
//	tree listener   pl: len(pl.ParseErrors)   > 0 <=> SemErrs(text)
//	kc.RuleEntities: when no error of any kind: every entry is a non-nil entity whose RuleName is its key (duplicate
//	names are a SemErr), and there is at least one rule (grammar: primary = ruleEntity+)
func (fe *FE) execAntlrWalk(st *State, ins ssa.Instruction, ci *callInfo, site string) bool {
	fe.usedExt["extern antlr pipeline (native model execAntlrWalk: error lists reflect LexErrs/SynErrs/SemErrs of the text for exactly the attached listeners; an error-free walk leaves a non-empty map of non-nil entities keyed by their names; a blank text is a syntax error)"] = true
	var text string
	lexLis, parLis := "", ""
	origin := func(v ssa.Value) string {
		for i := 0; i < 12 && v != nil; i++ {
			switch x := v.(type) {
			case *ssa.UnOp:
				v = x.X
			case *ssa.FieldAddr:
				v = x.X
			case *ssa.Call:
				if sc := x.Call.StaticCallee(); sc != nil {
					return sc.Name()
				}
				return ""
			case *ssa.MakeInterface:
				v = x.X
			case *ssa.ChangeInterface:
				v = x.X
			default:
				return ""
			}
		}
		return ""
	}
	for _, b := range fe.Fn.Blocks {
		for _, in := range b.Instrs {
			call, ok := in.(*ssa.Call)
			if !ok {
				continue
			}
			sc := call.Call.StaticCallee()
			if sc == nil {
				continue
			}
			switch sc.Name() {
			case "NewInputStream":
				if v, ok := st.vals[call.Call.Args[0]]; ok {
					text = v.T
				} else {
					text = fe.valOf(st, call.Call.Args[0]).T
				}
			case "AddErrorListener":
				rec := origin(call.Call.Args[0])
				mi, ok := call.Call.Args[1].(*ssa.MakeInterface)
				if !ok {
					continue
				}
				lv, ok := st.vals[mi.X]
				if !ok || lv.Kind != VScalar {
					continue
				}
				switch rec {
				case "NewgengineLexer":
					lexLis = lv.T
				case "NewgengineParser":
					parLis = lv.T
				}
			}
		}
	}
	if text == "" {
		fe.errorf("antlr walk: cannot find the parsed text")
		return false
	}
	elT := fe.V.resolveType("iparser.GengineErrorListener", nil)
	plT := fe.V.resolveType("iparser.GengineParserListener", nil)
	kcT := fe.V.resolveType("base.KnowledgeContext", nil)
	if elT == nil || plT == nil || kcT == nil {
		fe.errorf("antlr walk: types not found")
		return false
	}
	setErrs := func(structT types.Type, field, obj, pred string) {
		ft := fieldType(structT, field)
		loc := &Loc{Base: fieldBase(structT, field), Idx: []string{obj}, T: ft}
		fe.store(st, loc, fe.freshVal(st, "errs", ft))
		v := fe.load(st, loc)
		st.assume("(= (> " + v.Len + " 0) (" + pred + " " + text + "))")
	}
	if lexLis != "" {
		setErrs(elT, "GrammarErrors", lexLis, "LexErrs")
	}
	if parLis != "" {
		setErrs(elT, "GrammarErrors", parLis, "SynErrs")
	}
	// tree listener: second argument of Walk
	call := ins.(ssa.CallInstruction).Common()
	mi, ok := call.Args[1].(*ssa.MakeInterface)
	if !ok {
		fe.errorf("antlr walk: listener argument shape")
		return false
	}
	pl := fe.valOf(st, mi.X)
	setErrs(plT, "ParseErrors", pl.T, "SemErrs")
	// the container being filled
	kcv := fe.load(st, &Loc{Base: fieldBase(plT, "KnowledgeContext"), Idx: []string{pl.T}, T: fieldType(plT, "KnowledgeContext")})
	reT := fieldType(kcT, "RuleEntities")
	re := fe.load(st, &Loc{Base: fieldBase(kcT, "RuleEntities"), Idx: []string{kcv.T}, T: reT})
	mt := reT.Underlying().(*types.Map)
	db, vb, lb := mapBases(mt)
	fe.havocRowNoFrame(st, db, "(Array Str Bool)", re.T)
	fe.havocRowNoFrame(st, vb, "(Array Str Int)", re.T)
	fe.havocRowNoFrame(st, lb, SInt, re.T)
	dom := sel(fe.heapTerm(st, db, arraySort([]string{SInt, SStr}, SBool)), re.T)
	val := sel(fe.heapTerm(st, vb, arraySort([]string{SInt, SStr}, SInt)), re.T)
	ln := sel(fe.heapTerm(st, lb, arraySort([]string{SInt}, SInt)), re.T)
	fe.mapLenAxioms(st, mt, re.T, ln)
	reEnt := fe.V.resolveType("base.RuleEntity", nil)
	nameArr := fe.heapTerm(st, fieldBase(reEnt, "RuleName"), arraySort([]string{SInt}, SStr))
	prev := fe.bumpCnt(st)
	ok0 := fmt.Sprintf("(and (not (LexErrs %s)) (not (SynErrs %s)) (not (SemErrs %s)))", text, text, text)
	if lexLis == "" {
		ok0 = fmt.Sprintf("(and (not (SynErrs %s)) (not (SemErrs %s)))", text, text)
	}
	st.assume(fmt.Sprintf("(=> %s (forall ((k Str)) (! (=> (select %s k) (and (> (select %s k) %s) (<= (select %s k) %s) (= (select %s (select %s k)) k))) :pattern ((select %s k)))))", ok0, dom, val, prev, val, fe.cntTerm(st), nameArr, val, val))
	st.assume(fmt.Sprintf("(=> (and (not (SynErrs %s)) (not (SemErrs %s))) (> %s 0))", text, text, ln))
	// grammar fact (primary: ruleEntity+): a text without any token is a syntax error
	st.assume(fmt.Sprintf("(=> (blank %s) (SynErrs %s))", text, text))
	return true
}

// benignPackage: packages whose functions cannot reach gengine's state (they take no pointers into it) and are treated
// as total functions with unconstrained results when no explicit extern contract exists.
func benignPackage(path string) bool {
	switch path {
	case "fmt", "log", "time", "strings", "strconv", "math", "errors", "unicode", "unicode/utf8", "github.com/google/martian/log":
		return true
	}
	return false
}
