; identity permutation (ghost `perm` before/without a sort)
(declare-const idperm (Array Int Int))
(assert (forall ((i Int)) (! (= (select idperm i) i) :pattern ((select idperm i)))))
