#!/usr/bin/env python3
"""Must-fail / must-pass corpus runner.

Each mutant is a small textual edit of a copy of /repo (made under a fresh temp dir
outside /repo and /verif, removed afterwards).  A must-fail mutant has to make
`govc -prop P` fail, with a failing obligation whose name contains one of `expect`.
A must-pass mutant (harmless refactor) has to stay green.

usage: run.py [--only ID-substring] [--prop Cxx] [--keep] [--build] corpus.json...
"""
import json, os, shutil, subprocess, sys, tempfile, time, argparse

ENV = dict(os.environ, GOFLAGS="-mod=mod", GOPROXY="off", GOSUMDB="off", GOTOOLCHAIN="local")


def apply_edit(root, m):
    edits = m.get("edits") or [m]
    for e in edits:
        p = os.path.join(root, e["file"])
        s = open(p).read()
        n = s.count(e["find"])
        want = e.get("count", 1)
        if n < 1 or (want != "all" and n < want):
            raise SystemExit(f"mutant {m['id']}: pattern found {n} times in {e['file']}: {e['find']!r}")
        if want == "all":
            s = s.replace(e["find"], e["replace"])
        else:
            # replace the k-th occurrence (1-based `nth`, default first)
            nth = e.get("nth", 1)
            idx = -1
            for _ in range(nth):
                idx = s.find(e["find"], idx + 1)
                if idx < 0:
                    raise SystemExit(f"mutant {m['id']}: occurrence {nth} not found")
            s = s[:idx] + e["replace"] + s[idx + len(e["find"]):]
        open(p, "w").write(s)


def run_one(m, args):
    tmp = tempfile.mkdtemp(prefix="govc_mut_")
    root = os.path.join(tmp, "repo")
    try:
        shutil.copytree("/repo", root, ignore=shutil.ignore_patterns(".git"))
        if m.get("patch"):
            pf = m["patch"] if os.path.isabs(m["patch"]) else os.path.join(os.path.dirname(m["_corpus"]), m["patch"])
            r = subprocess.run(["git", "apply", "--unsafe-paths", "--directory=" + root, pf], capture_output=True, text=True, cwd="/")
            if r.returncode != 0:
                r = subprocess.run(["patch", "-p1", "-d", root, "-i", pf], capture_output=True, text=True)
                if r.returncode != 0:
                    return {"id": m["id"], "ok": False, "why": "patch does not apply: " + r.stdout + r.stderr}
        else:
            try:
                apply_edit(root, m)
            except SystemExit as e:
                return {"id": m["id"], "ok": False, "why": "stale entry: " + str(e)}
        if args.build:
            r = subprocess.run(["go", "build", "./..."], cwd=root, env=ENV, capture_output=True, text=True)
            if r.returncode != 0:
                return {"id": m["id"], "ok": False, "why": "does not compile: " + r.stderr[:300]}
        res = []
        ok = True
        for prop in m["props"]:
            if args.prop and prop != args.prop:
                continue
            out = os.path.join(tmp, prop + ".json")
            t0 = time.time()
            r = subprocess.run(["/verif/bin/govc", "-repo", root, "-prop", prop, "-out", out, "-work", os.path.join(tmp, "w" + prop)], capture_output=True, text=True, env=ENV)
            failed = []
            if os.path.exists(out):
                rep = json.load(open(out))
                failed = [o["name"] + "[" + o["result"] + "]" for o in rep["obligations"] if o["result"] != "unsat"]
            elif r.returncode != 0:
                failed = ["govc-crashed: " + r.stderr[-300:]]
            must_fail = m.get("kind", "fail") == "fail"
            if must_fail:
                hit = [f for f in failed if any(x in f for x in m.get("expect", [""]))]
                good = len(hit) > 0
            else:
                good = len(failed) == 0
            ok = ok and good
            res.append({"prop": prop, "failed": sorted(set(failed))[:8], "good": good, "secs": round(time.time() - t0, 1)})
        return {"id": m["id"], "ok": ok, "res": res, "kind": m.get("kind", "fail")}
    finally:
        if not args.keep:
            shutil.rmtree(tmp, ignore_errors=True)
        else:
            print("kept", tmp)


def main():
    ap = argparse.ArgumentParser()
    ap.add_argument("corpus", nargs="+")
    ap.add_argument("--only")
    ap.add_argument("--prop")
    ap.add_argument("--keep", action="store_true")
    ap.add_argument("--build", action="store_true")
    ap.add_argument("--json")
    ap.add_argument("--sample", type=int, default=0, help="run at most N entries (rotating with --seed)")
    ap.add_argument("--seed", type=int, default=0)
    args = ap.parse_args()
    allres = []
    bad = 0
    todo = []
    for c in args.corpus:
        for m in json.load(open(c)):
            m["_corpus"] = os.path.abspath(c)
            if args.only and args.only not in m["id"]:
                continue
            if args.prop and args.prop not in m["props"]:
                continue
            todo.append(m)
    if args.sample and len(todo) > args.sample:
        # deterministic rotating window over the corpus: different seeds cover different entries
        k = (args.seed * args.sample) % len(todo)
        todo = (todo + todo)[k:k + args.sample]
    for m in todo:
        if True:
            r = run_one(m, args)
            allres.append(r)
            flag = "ok  " if r["ok"] else "MISS"
            if not r["ok"]:
                bad += 1
            print(flag, r["id"], r.get("why", ""), " ".join(f"{x['prop']}:{'caught' if x['good'] and r.get('kind')=='fail' else ('green' if x['good'] else 'WRONG')}({len(x['failed'])} failed, {x['secs']}s) {x['failed'][:3]}" for x in r.get("res", [])), flush=True)
    if args.json:
        json.dump(allres, open(args.json, "w"), indent=1)
    print(f"{len(allres)} mutants, {bad} not as expected")
    sys.exit(1 if bad else 0)


if __name__ == "__main__":
    main()
