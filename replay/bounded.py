"""Bounded stand-ins (labelled as such in the evidence, never counted as proved).

for_property(prop) -> list of callables b(tier, seed, repo, work) -> dict
A stand-in covers a clause that no contract within reach decides (e.g. operator precedence, which lives in the
generated ANTLR recogniser and the stack-based listener). It runs the REAL code against an independent reference on a
stated, finite input set. It only runs in the thorough tier.
"""
import json, os
import adapters


def _mk(bid, what, bound, runner):
    def b(tier, seed, repo, work):
        res = {"id": bid, "kind": "bounded", "what": what, "bound": bound, "tier": tier}
        if tier != "thorough":
            res["ran"] = False
            res["note"] = "bounded stand-ins run in the thorough tier only"
            return res
        failed, info = runner(repo, seed)
        res["ran"] = True
        res["failed"] = bool(failed)
        if failed:
            p = os.path.join(work, "replay_bounded_%s.json" % bid)
            json.dump({"bounded_check": bid, "what": what, "bound": bound, "output": info.get("output", "")[-6000:],
                       "failing_inputs": [l.strip() for l in info.get("output", "").splitlines() if "FAILING INPUT" in l][:10]}, open(p, "w"), indent=1)
            res["violations"] = [p]
        return res
    return b


TABLE = {
    "C01": [_mk("B01", "operator precedence, associativity, parentheses, kind matrix and metadata constants against a reference evaluator written from the property text",
                "21x21 operand pairs x 12 operators; 1500 random expression strings (depth <= 4) per seed; 20 fixed logic / literal / metadata cases",
                lambda repo, seed: adapters.run_expr_battery(repo, seed=seed or 1, count=1500))],
    "C02": [_mk("B02", "statement programs (if / else-if chains, for with continue and break, nested loops, compound assignments, return, forRange over slice / map / array) against the same logic written in Go",
                "6 program shapes x parameter 0..7 (incl. empty loop body / empty branch), forRange over sizes 0..4",
                lambda repo, seed: adapters.run_stmt_battery(repo))],
    "C03": [_mk("B03", "field / pointer-scalar writes across numeric classes, container reads and writes (missing keys, variable keys, pointer and value containers), calls with mixed-class arguments: host state against the property text",
                "12 target kinds x 7 sources; 6 pointer targets x 6 sources; 22 container cases; 3 call shapes; name injected mid-rule; fixed values",
                lambda repo, seed: adapters.run_inject_battery(repo))],
    "C04": [_mk("B04", "random rule sets (ok / failing / stop-tag / stop-then-fail rules, tied and negative saliences) through Execute, ExecuteWithStopTagDirect and the sorted selected variants: order, exactly-once, error policy, stop tag against the property text",
                "600 rule sets of 1..6 rules x both error policies x 5 entry points per seed",
                lambda repo, seed: adapters.run_seq_battery(repo, seed=seed or 1, count=600))],
    "C05": [_mk("B05", "every concurrent / mix / inverse-mix / N-M / selected / as-given / DAG model of Gengine on random rule sets: the set of rules run (each once per occurrence), the documented stage order, the result map, no error when nothing fails; with one failing rule at every position: an error, no hang (8 s watchdog), no crash",
                "120 rule sets of 2..7 rules (distinct saliences) x 16 entry points per seed; failing-rule sweep on every 4th set",
                lambda repo, seed: adapters.run_model_battery(repo, seed=seed or 1, count=120))],
    "C09": [_mk("B09", "faults thrown by injected functions (string / error / int panics, nil-map write, index out of range) in 9 statement shapes incl. conc blocks, and one failing rule at every position of every execution model: an error is returned, nothing hangs (8 s watchdog), the process survives",
                "5 throwers x 9 shapes; 60 rule sets x 16 entry points per seed",
                lambda repo, seed: adapters.run_model_battery(repo, seed=(seed or 1) + 400, count=60))],
    "C13": [_mk("B13", "DAG model on random layerings with unknown names and a rule repeated in a later layer: once per occurrence, last layer last, result map, error and no hang when a rule fails",
                "80 rule sets per seed (the DAG entry of the model battery)",
                lambda repo, seed: adapters.run_model_battery(repo, seed=(seed or 1) + 500, count=80))],
    "C08": [_mk("B08", "random sequences of full build / incremental build / removal on a builder and on a pool against a reference model (existence, count, salience, description, sort-model order, versions)",
                "150 builder sequences x 12 operations and 76 pool sequences x 10 operations over 6 rule names per seed",
                lambda repo, seed: adapters.run_merge_battery(repo, seed=seed or 1, count=150))],
    "C10": [_mk("B10", "totality (no panic), agreement of the five compile entry points and all-or-nothing on mutated rule texts; covers the clause no contract decides: that the ANTLR recogniser and the listener return normally on arbitrary text",
                "600 mutated texts (1-3 character / token mutations of three valid texts) per seed",
                lambda repo, seed: adapters.run_compile_battery(repo, seed=seed or 1, count=600))],
    "C12": [_mk("B12", "the sorted selected variants on random rule sets and random (shuffled) name selections: only selected rules run, each once, in salience order, with the documented error policy",
                "400 rule sets of 1..6 rules x both error policies per seed (the selected entry points of the sequential battery)",
                lambda repo, seed: adapters.run_seq_battery(repo, seed=(seed or 1) + 200, count=400))],
    "C14": [_mk("B14", "stop tag in the sort model and the sorted selected variant: a rule that sets the tag is the last one to run, also when it fails afterwards, and the error policy still holds",
                "400 rule sets of 1..6 rules x both error policies per seed (the stop-tag entry points of the sequential battery)",
                lambda repo, seed: adapters.run_seq_battery(repo, seed=(seed or 1) + 300, count=400))],
    "C16": [_mk("B16", "random pool management sequences (full, incremental, removal, clear) against a reference model; queries and executions on three overlapping requests",
                "76 pool sequences x 10 operations per seed",
                lambda repo, seed: adapters.run_merge_battery(repo, seed=(seed or 1) + 100, count=150))],
    "C20": [_mk("B20", "one faulty construct on a known line (17 fault classes x 5 enclosing contexts + 10 return-operand faults): every cited line is the construct's 1-based start line",
                "fixed table",
                lambda repo, seed: adapters.run_position_battery(repo))],
}


def for_property(prop):
    return TABLE.get(prop, [])
