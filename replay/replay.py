"""Replay of verifier counterexamples against the real code.

try_replay(prop, obligation_name, ob, repo, work) -> (confirmed, info)
Adapters are registered per obligation-name pattern; each builds a Go test from the
model, injects it with `go test -overlay` (nothing is written into the repo) and
reports whether the real code misbehaves.
"""
import json, os, re, subprocess, tempfile

ENV = dict(os.environ, GOFLAGS="-mod=mod", GOPROXY="off", GOSUMDB="off", GOTOOLCHAIN="local")
ADAPTERS = []


def adapter(pattern):
    def deco(f):
        ADAPTERS.append((re.compile(pattern), f))
        return f
    return deco


def parse_model(text):
    """very small SMT model reader: (define-fun name () Sort value) for scalar values"""
    m = {}
    for mo in re.finditer(r"\(define-fun\s+(\S+)\s+\(\)\s+(\S+|\([^)]*\))\s+([^\n]*?)\)\s*$", text or "", re.M):
        m[mo.group(1)] = mo.group(3).strip()
    return m


def smt_int(s):
    s = s.strip()
    mo = re.match(r"\(-\s*(\d+)\)", s)
    if mo:
        return -int(mo.group(1))
    if re.match(r"^\d+$", s):
        return int(s)
    mo = re.match(r"#x([0-9a-fA-F]+)", s)
    if mo:
        return int(mo.group(1), 16)
    mo = re.match(r"#b([01]+)", s)
    if mo:
        return int(mo.group(1), 2)
    return None


def go_test_overlay(repo, pkgdir, filename, source, run, timeout=120, race=False):
    """inject `source` as pkgdir/filename via -overlay and run the named test"""
    with tempfile.TemporaryDirectory(prefix="govc_replay_") as td:
        src = os.path.join(td, filename)
        open(src, "w").write(source)
        ov = os.path.join(td, "overlay.json")
        json.dump({"Replace": {os.path.join(repo, pkgdir, filename): src}}, open(ov, "w"))
        cmd = ["go", "test", "-overlay", ov, "-vet=off", "-count=1", "-timeout", "60s", "-run", run]
        if race:
            cmd.insert(2, "-race")
        cmd.append("./" + pkgdir)
        try:
            r = subprocess.run(cmd, cwd=repo, env=ENV, capture_output=True, text=True, timeout=timeout)
            return r.returncode, (r.stdout + r.stderr)[-4000:]
        except subprocess.TimeoutExpired:
            return 124, "timeout"


def try_replay(prop, name, ob, repo, work):
    # every adapter whose pattern matches is tried until one produces a failing input
    last = None
    for pat, f in ADAPTERS:
        if pat.search(name):
            last = f(prop, name, ob, repo, work)
            if last[0]:
                return last
    if last is not None:
        return last
    return False, {"note": "no replay adapter registered for this obligation"}


def rerun(path, repo):
    info = json.load(open(path))
    if "bounded_check" in info:
        # a bounded stand-in failed: run it again
        import bounded
        for prop, bs in bounded.TABLE.items():
            for b in bs:
                res = b("thorough", 1, repo, os.path.dirname(path))
                if res.get("id") == info["bounded_check"]:
                    print(json.dumps({k: v for k, v in res.items() if k != "violations"}, indent=1))
                    return not res.get("failed")
        return True
    if info.get("obligation") in ("selftest", "govc:load"):
        print(json.dumps(info, indent=1)[:4000])
        return True
    ob = {"model": info.get("model"), "src": info.get("src"), "path": info.get("path")}
    ok, rinfo = try_replay(info["property"], info["obligation"], ob, repo, os.path.dirname(path))
    print(json.dumps({k: (v if k != "test_source" else "<%d bytes of Go test source>" % len(v)) for k, v in rinfo.items()}, indent=1)[:6000])
    # exit status 0 means: the recorded violation does NOT reproduce any more
    return not ok


try:
    import adapters  # noqa: F401  (registers adapters)
except ImportError:
    pass
