"""Replay adapters: obligation-name pattern -> scenario test on the real code.

A scenario is a Go test (external test package injected into /repo/engine via
`go test -overlay`, nothing is written into the repository) built from the
obligation's meaning and, where the solver gave one, the model's parameters.
The violation is *confirmed* when the test fails (or crashes) on the real code.
"""
import os, re
from replay import adapter, go_test_overlay, parse_model, smt_int

HERE = os.path.dirname(os.path.abspath(__file__))
COMMON = open(os.path.join(HERE, "scenarios", "common.go.txt")).read()


def run_scenario(repo, body, run, imports=(), race=False, pkgdir="engine", pkgname="engine_test"):
    import json, subprocess, tempfile
    from replay import ENV
    imps = "\n".join('\t"%s"' % i for i in ("testing", "github.com/bilibili/gengine/engine") + tuple(imports))
    src = "package %s\n\nimport (\n%s\n)\n\nvar _ = engine.NewGengine\n\n%s\n" % (pkgname, imps, body)
    with tempfile.TemporaryDirectory(prefix="govc_replay_") as td:
        open(td + "/c_test.go", "w").write(COMMON.replace("package engine_test", "package " + pkgname))
        open(td + "/x_test.go", "w").write(src)
        ov = {"Replace": {os.path.join(repo, pkgdir, "zz_replay_common_test.go"): td + "/c_test.go",
                          os.path.join(repo, pkgdir, "zz_replay_x_test.go"): td + "/x_test.go"}}
        json.dump(ov, open(td + "/ov.json", "w"))
        cmd = ["go", "test", "-overlay", td + "/ov.json", "-vet=off", "-count=1", "-timeout", "60s", "-run", run]
        if race:
            cmd.insert(2, "-race")
        cmd.append("./" + pkgdir)
        try:
            r = subprocess.run(cmd, cwd=repo, env=ENV, capture_output=True, text=True, timeout=180)
            out = (r.stdout + r.stderr)[-3000:]
            rc = r.returncode
        except subprocess.TimeoutExpired:
            rc, out = 124, "timeout (hang)"
    return rc != 0, {"scenario": run, "exit": rc, "output": out, "test_source": src}


THREE = '`rule "a" salience 3 begin rec.Hit("a") end rule "b" salience 2 begin rec.Hit("b") end rule "c" salience 1 begin rec.Hit("c") end`'


def nm_call(fn):
    sel = "Selected" in fn
    names = ', []string{"a","b","c"}' if sel else ""
    n, m = (2, 1) if "NSort" in fn else (1, 2)
    return f"g.{fn}({n}, {m}, rb, false{names})"


@adapter(r"Execute(Selected)?N\w+M\w+:ensures:(stopfirst|contall)")
def nm_stop_on_error(prop, name, ob, repo, work):
    fn = re.search(r"\)\.(Execute\w+):", name).group(1)
    body = f'''
func Test_Replay(t *testing.T) {{
	rec := &recorder{{}}
	rb := build(t, {THREE}, rec, nil)
	g := engine.NewGengine()
	err := {nm_call(fn)}
	if err != nil || len(rec.ran) != 3 {{
		t.Fatalf("stop-on-error with no failing rule must run the whole window: ran=%v err=%v", rec.ran, err)
	}}
}}'''
    return run_scenario(repo, body, "Test_Replay")


@adapter(r"ExecuteSelectedN\w+M\w+:safe:nil-deref")
def selected_nm_unknown(prop, name, ob, repo, work):
    fn = re.search(r"\)\.(Execute\w+):", name).group(1)
    body = f'''
func Test_Replay(t *testing.T) {{
	rec := &recorder{{}}
	rb := build(t, {THREE}, rec, nil)
	g := engine.NewGengine()
	err := g.{fn}(1, 1, rb, true, []string{{"a", "zzz"}})
	if err == nil || len(rec.ran) != 0 {{
		t.Fatalf("unknown name must fail without running anything: ran=%v err=%v", rec.ran, err)
	}}
}}'''
    return run_scenario(repo, body, "Test_Replay")


@adapter(r"ExecuteN\w+M\w+:(safe:(slice|nil-deref)|monitor:.*(window|order))")
def nm_reload_between_stages(prop, name, ob, repo, work):
    """an update of the rule builder from inside a stage-one rule must not change what stage two runs"""
    fn = re.search(r"\)\.(Execute\w+):", name).group(1)
    n, m = (1, 2)
    body = f'''
type swapper struct {{
	rb   *builder.RuleBuilder
	text string
}}

func (s *swapper) Swap() {{
	if err := s.rb.BuildRuleFromString(s.text); err != nil {{
		panic(err)
	}}
}}

func Test_Replay(t *testing.T) {{
	rec := &recorder{{}}
	sw := &swapper{{text: `rule "only" salience 9 begin rec.Hit("only-v2") end`}}
	rb := build(t, `rule "a" salience 3 begin sw.Swap() rec.Hit("a-v1") end rule "b" salience 2 begin rec.Hit("b-v1") end rule "c" salience 1 begin rec.Hit("c-v1") end`, rec, map[string]interface{{}}{{"sw": sw}})
	sw.rb = rb
	g := engine.NewGengine()
	err := g.{fn}({n}, {m}, rb, true)
	if err != nil || len(rec.ran) != 3 {{
		t.Fatalf("one execution must run one version of the rule set: ran=%v err=%v", rec.ran, err)
	}}
}}'''
    return run_scenario(repo, body, "Test_Replay", imports=("github.com/bilibili/gengine/builder",))


@adapter(r"ExecuteDAGModel:(inv-entry:loop0\.fres|ensures:resultmap|call-pre:.*ExecuteDAGModel\$1)")
def dag_result_map(prop, name, ob, repo, work):
    body = f'''
func Test_Replay(t *testing.T) {{
	rec := &recorder{{}}
	rb := build(t, `rule "a" salience 3 begin rec.Hit("a") return 1 end`, rec, nil)
	g := engine.NewGengine()
	err := g.ExecuteDAGModel(rb, [][]string{{{{"a"}}}})
	res, _ := g.GetRulesResultMap()
	if err != nil || len(res) != 1 {{
		t.Fatalf("DAG call on a fresh engine: res=%v err=%v", res, err)
	}}
}}'''
    return run_scenario(repo, body, "Test_Replay")


def run_rule_text(repo, text, check, extra_imports=()):
    body = f'''
func Test_Replay(t *testing.T) {{
	rec := &recorder{{}}
	rb := build(t, `{text}`, rec, nil)
	g := engine.NewGengine()
	err := g.Execute(rb, true)
	res, _ := g.GetRulesResultMap()
	{check}
}}'''
    return run_scenario(repo, body, "Test_Replay", imports=extra_imports)


@adapter(r"ReturnStatement\)\.Evaluate:ensures:failnoflag|:ensures:failnoflag")
def failing_return_sets_flag(prop, name, ob, repo, work):
    return run_rule_text(repo, 'rule "a" begin return 1/0 end',
                         'if err == nil || len(res) != 0 { t.Fatalf("a failed rule must have no result entry: res=%v err=%v", res, err) }')


@adapter(r"RuleEntity\)\.Execute:(recovers:structural|safe:)")
def rule_panic_escapes(prop, name, ob, repo, work):
    return run_rule_text(repo, 'rule "a" begin if 1 { x = 2 } end',
                         'if err == nil { t.Fatalf("non-boolean condition must surface as an error: res=%v", res) }')


POOL_RACE = '''
func Test_Replay(t *testing.T) {
	rules := `rule "a" salience 3 begin x = 1 end rule "b" salience 2 begin y = 2 end`
	pool, err := engine.NewGenginePool(2, 4, 1, rules, map[string]interface{}{})
	if err != nil {
		t.Fatal(err)
	}
	var wg sync.WaitGroup
	for i := 0; i < 8; i++ {
		wg.Add(1)
		go func(i int) {
			defer wg.Done()
			for k := 0; k < 200; k++ {
				%s
			}
		}(i)
	}
	%s
	wg.Wait()
}'''


@adapter(r"GenginePool\)\.\w+(\$\d+)?:race:|GenginePool\)\.getGengine:safe:index")
def pool_race(prop, name, ob, repo, work):
    """data race on pool bookkeeping: run requests (and management calls) concurrently under the race detector"""
    req = 'pool.Execute(map[string]interface{}{"k": k}, true)'
    mgmt = ""
    if any(x in name for x in ("clear", "execModel", "ruleBuilder", "Kc", "rbSlice")) or "getGengine" not in name:
        mgmt = '''for k := 0; k < 50; k++ {
		_ = pool.UpdatePooledRules(rules)
		_ = pool.SetExecModel(1 + k%4)
		_ = pool.GetExecModel()
		pool.ExecuteRulesWithSpecifiedEM("a", 1, "b", 2)
	}'''
    body = POOL_RACE % (req, mgmt)
    return run_scenario(repo, body, "Test_Replay", imports=("sync",), race=True)


@adapter(r"GenginePool\)\.ClearPoolRules:(inv-entry|lockinv|frame|smoke)")
def pool_clear_then_incremental(prop, name, ob, repo, work):
    body = '''
func Test_Replay(t *testing.T) {
	rules := `rule "a" salience 3 begin x = 1 end`
	pool, err := engine.NewGenginePool(1, 2, 1, rules, map[string]interface{}{})
	if err != nil {
		t.Fatal(err)
	}
	pool.ClearPoolRules()
	if err := pool.UpdatePooledRulesIncremental(`rule "b" salience 1 begin return 7 end`); err != nil {
		t.Fatalf("incremental update after clear: %v", err)
	}
	if err := pool.RemoveRules([]string{"zzz"}); err != nil {
		t.Fatalf("removal after clear+incremental: %v", err)
	}
	e, res := pool.Execute(map[string]interface{}{}, true)
	if e != nil || len(res) != 1 {
		t.Fatalf("pool not back in service: res=%v err=%v", res, e)
	}
}'''
    return run_scenario(repo, body, "Test_Replay")


@adapter(r"GenginePool\)\.(prepare|prepareWithMultiInput):ensures:snapshot")
def pool_publication_race(prop, name, ob, repo, work):
    return pool_race(prop, "GenginePool).prepare:race:Kc", ob, repo, work)


@adapter(r"engine\.getKc:ensures:agreement|:ensures:agreement")
def entry_points_disagree(prop, name, ob, repo, work):
    """a text with a lexer-only error must be rejected by every compile entry point"""
    body = '''
func Test_Replay(t *testing.T) {
	good := `rule "a" salience 3 begin x = 1 end`
	bad := "rule \\"b\\" begin x = 1 $ end"
	rb := builder.NewRuleBuilder(context.NewDataContext())
	e1 := rb.BuildRuleFromString(bad)
	e2 := rb.BuildRuleWithIncremental(bad)
	_, e3 := engine.NewGenginePool(1, 2, 1, bad, map[string]interface{}{})
	pool, err := engine.NewGenginePool(1, 2, 1, good, map[string]interface{}{})
	if err != nil {
		t.Fatal(err)
	}
	e4 := pool.UpdatePooledRules(bad)
	e5 := pool.UpdatePooledRulesIncremental(bad)
	rej := []bool{e1 != nil, e2 != nil, e3 != nil, e4 != nil, e5 != nil}
	for _, r := range rej {
		if r != rej[0] {
			t.Fatalf("entry points disagree on %q: rejected = %v (full, incremental, pool construction, pool full update, pool incremental update)", bad, rej)
		}
	}
}'''
    return run_scenario(repo, body, "Test_Replay", imports=("github.com/bilibili/gengine/builder", "github.com/bilibili/gengine/context"))


@adapter(r"(updateIncremental|BuildRuleWithIncremental):frame:F_base_KnowledgeContext_|updateIncremental:ensures:fresh")
def incremental_update_in_place(prop, name, ob, repo, work):
    """an incremental update triggered while an execution is between two stages must not change what that execution runs"""
    body = '''
type updater struct {
	pool *engine.GenginePool
	text string
}

func (u *updater) Update() {
	if err := u.pool.UpdatePooledRulesIncremental(u.text); err != nil {
		panic(err)
	}
}

func Test_Replay(t *testing.T) {
	v1 := `rule "a" salience 30 begin up.Update() return 1 end rule "b" salience 20 begin return 1 end rule "c" salience 10 begin return 1 end`
	v2 := `rule "b" salience 20 begin return 2 end rule "c" salience 5 begin return 2 end rule "d" salience 25 begin return 2 end`
	up := &updater{text: v2}
	pool, err := engine.NewGenginePool(1, 2, 1, v1, map[string]interface{}{"up": up})
	if err != nil {
		t.Fatal(err)
	}
	up.pool = pool
	e, res := pool.ExecuteNSortMConcurrent(1, 2, true, map[string]interface{}{})
	if e != nil {
		t.Fatalf("error: %v", e)
	}
	for name, v := range res {
		if v != int64(1) {
			t.Fatalf("one execution ran two versions of the rule set: result[%s]=%v, all=%v", name, v, res)
		}
	}
	if len(res) != 3 {
		t.Fatalf("execution did not run version 1 completely: %v", res)
	}
}'''
    return run_scenario(repo, body, "Test_Replay")


# ---------------------------------------------------------------------------------------------------------------
# differential batteries: the real code against an independent reference written from the property text.
# BOUNDED (fixed tables + seeded random inputs): used to turn a failed obligation into a concrete failing input, and
# in the thorough tier as labelled bounded stand-ins for clauses no contract decides (e.g. operator precedence).

def battery_source(fname, seed=1, count=400):
    return open(os.path.join(HERE, "scenarios", fname)).read().replace("SEED", str(seed)).replace("COUNT", str(count))


EXPR_IMPORTS = ("fmt", "sort", "strconv", "math/rand", "github.com/bilibili/gengine/builder", "github.com/bilibili/gengine/context")


def run_expr_battery(repo, seed=1, count=400):
    return run_scenario(repo, battery_source("expr_battery.go.txt", seed, count), "Test_Replay", imports=EXPR_IMPORTS)


@adapter(r"^core\.(Add|Sub|Mul|Div|isIntKind):|^base\.compareIntegers:|^base\.\(\*(Expression|MathExpression|ExpressionAtom|Constant)\)\.Evaluate:|GengineParserListener\)\.(EnterRuleEntity|ExitAt\w+|ExitInteger|ExitRealLiteral|ExitBooleanLiteral|ExitStringLiteral|ExitVariable|ExitConstant|ExitMathExpression|ExitExpression|ExitExpressionAtom|ExitMathPmOperator|ExitMathMdOperator|ExitComparisonOperator|ExitLogicalOperator|ExitNotOperator):")
def expr_battery(prop, name, ob, repo, work):
    return run_expr_battery(repo)


INJECT_IMPORTS = ("fmt", "reflect", "github.com/bilibili/gengine/builder", "github.com/bilibili/gengine/context")


def run_inject_battery(repo, seed=1, count=0):
    return run_scenario(repo, battery_source("inject_battery.go.txt", seed, count), "Test_Replay", imports=INJECT_IMPORTS)


@adapter(r"^core\.(GetWantedValue|ParamsTypeChange|getNumType|SetSingleValue|SetAttributeValue|GetStructAttributeValue|GetRawTypeValue|InvokeFunction):|^base\.\(\*(MapVar|Arg|Args)\)\.Evaluate:|^context\.\(\*DataContext\)\.(GetValue|SetValue|SetMapVarValue|ExecFunc|ExecMethod|ExecThreeLevel):|GengineParserListener\)\.Exit(StringLiteral|Integer|MapVar|Variable|FunctionCall|MethodCall|ThreeLevelCall|FunctionArgs):")
def inject_battery(prop, name, ob, repo, work):
    return run_inject_battery(repo)


MERGE_IMPORTS = ("fmt", "strings", "sync", "math/rand", "github.com/bilibili/gengine/builder", "github.com/bilibili/gengine/context")


def run_merge_battery(repo, seed=1, count=60):
    return run_scenario(repo, battery_source("merge_battery.go.txt", seed, count), "Test_Replay", imports=MERGE_IMPORTS)


@adapter(r"^tool\.BinarySearch:|^builder\.\(\*RuleBuilder\)\.(BuildRuleFromString|BuildRuleWithIncremental|RemoveRules|IsExist)|^engine\.updateIncremental:|GenginePool\)\.(UpdatePooledRules\w*|RemoveRules|ClearPoolRules|IsExist|GetRulesNumber|GetRuleSalience|GetRuleDesc):(ensures|inv-|lockinv)")
def merge_battery(prop, name, ob, repo, work):
    return run_merge_battery(repo)


POS_IMPORTS = ("regexp", "strconv", "strings", "github.com/bilibili/gengine/builder", "github.com/bilibili/gengine/context")


def run_position_battery(repo, seed=1, count=0):
    return run_scenario(repo, battery_source("position_battery.go.txt", seed, count), "Test_Replay", imports=POS_IMPORTS)


@adapter(r":(ensures|monitor)[:\w\.\(\)\*]*\b(cites|positioned|callerrorcites)\b|GengineParserListener\)\.Exit\w+:")
def position_battery(prop, name, ob, repo, work):
    return run_position_battery(repo)


COMPILE_IMPORTS = ("fmt", "math/rand", "github.com/bilibili/gengine/builder", "github.com/bilibili/gengine/context")


def run_compile_battery(repo, seed=1, count=300):
    return run_scenario(repo, battery_source("compile_battery.go.txt", seed, count), "Test_Replay", imports=COMPILE_IMPORTS)


@adapter(r":ensures:(agreement|allornothing)|NewGengineErrorListener|no-contract:.*(antlr|Listener)")
def compile_battery(prop, name, ob, repo, work):
    return run_compile_battery(repo)


SEQ_IMPORTS = ("fmt", "strings", "math/rand", "github.com/bilibili/gengine/builder")


def run_seq_battery(repo, seed=1, count=150):
    return run_scenario(repo, battery_source("seq_battery.go.txt", seed, count), "Test_Replay", imports=SEQ_IMPORTS)


@adapter(r"^engine\.\(\*Gengine\)\.(Execute|ExecuteWithStopTagDirect|ExecuteSelectedRules|ExecuteSelectedRulesWithControl|ExecuteSelectedRulesWithControlAndStopTag)(\$\d+)?:")
def seq_battery(prop, name, ob, repo, work):
    return run_seq_battery(repo)


MODEL_IMPORTS = ("fmt", "sort", "strings", "time", "math/rand", "github.com/bilibili/gengine/builder")


def run_model_battery(repo, seed=1, count=40):
    return run_scenario(repo, battery_source("model_battery.go.txt", seed, count), "Test_Replay", imports=MODEL_IMPORTS)


@adapter(r"^engine\.\(\*Gengine\)\.Execute\w*(\$\d+)*:|^base\.\(\*(ConcStatement|FunctionCall|MethodCall|ThreeLevelCall|RuleEntity)\)\.(Evaluate|Execute)(\$\d+)*:")
def model_battery(prop, name, ob, repo, work):
    return run_model_battery(repo)


POOL_IMPORTS = ("sync", "sync/atomic", "time")


def run_pool_battery(repo, seed=1, count=0):
    return run_scenario(repo, battery_source("pool_battery.go.txt", seed, count), "Test_Replay", imports=POOL_IMPORTS)


@adapter(r"^engine\.NewGenginePool:|^engine\.\(\*GenginePool\)\.(getGengine|putGengineLocked|prepare\w*|SetExecModel|GetExecModel|Execute\w*)(\$\d+)*:")
def pool_battery(prop, name, ob, repo, work):
    return run_pool_battery(repo)


STMT_IMPORTS = ("fmt", "sort", "strings", "github.com/bilibili/gengine/builder", "github.com/bilibili/gengine/context")


def run_stmt_battery(repo, seed=1, count=0):
    return run_scenario(repo, battery_source("stmt_battery.go.txt", seed, count), "Test_Replay", imports=STMT_IMPORTS)


@adapter(r"^base\.\(\*(Statements|Statement|IfStmt|ElseStmt|ElseIfStmt|ForStmt|ForRangeStmt|BreakStmt|ContinueStmt|Assignment)\)\.(Evaluate|Accept\w+):|^iter\.|GengineParserListener\)\.Exit(Statements?|IfStmt|ElseStmt|ElseIfStmt|ForStmt|ForRangeStmt|BreakStmt|ContinueStmt|ReturnStmt|RuleContent|Assignment|AssignOperator):")
def stmt_battery(prop, name, ob, repo, work):
    return run_stmt_battery(repo)
