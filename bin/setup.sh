#!/bin/bash
# builds govc from /verif only (offline)
set -e
export GOFLAGS=-mod=mod GOPROXY=off GOSUMDB=off GOTOOLCHAIN=local
cd /verif/govc
go build -o /verif/bin/govc .
echo "setup ok"
