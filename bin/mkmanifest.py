#!/usr/bin/env python3
"""Regenerates /verif/MANIFEST.json from the claims table below (kept in one place so that
the manifest, not_applicable list and engine table never drift apart)."""
import json, os, subprocess
V = os.path.dirname(os.path.dirname(os.path.abspath(__file__)))
NOTE = ("contracts (//@ comments in zz_contracts*_verif.go, build tag verif) on the real functions; obligations generated from go/ssa "
        "of /repo's working tree on every run and discharged by z3 5.1 / z3 4.8 / cvc5. Trusted: extern and `trusted` contracts listed in the "
        "evidence file, meta-arguments FJ (fork/join sequentialisation) and LB (lock balance), the VC generator itself and the solvers. "
        "Machine ints are mathematical with explicit range obligations unless the block says `arith int unchecked` (listed). "
        "Clauses the contracts do not decide are listed under coverage.not_decided in the evidence.")
TECH = "contract-based deductive verification (own WP/symbolic-execution VC generator over go/ssa + SMT: z3, cvc5)"
CLAIMS = {
 "C03": "injected data: per-function contracts over an abstract reflect (kind, integer / float64 / string / bool payload, field / element / pointee navigation): name resolution injected-first for reads, writes and calls (one- and two-level paths); field and pointer-scalar writes make exactly ONE store on the resolved target with the value converted across the integer / unsigned / float classes whenever representable; container reads yield the element or the zero value of the element type, container writes coerce key and value and make one store; arguments are evaluated once, in order, coerced to the declared parameter kinds and passed in one call whose first result is returned; host memory itself is outside the model (stores are monitored, not interpreted); bounded stand-in B03 in the thorough tier",
 "C01": "expression evaluation: per-node contracts on the real Expression / MathExpression / ExpressionAtom / Constant Evaluate methods and core.Add/Sub/Mul/Div/compareIntegers in 64-bit bit-vector + IEEE float64 semantics: operand order, kind dispatch (wrapping int64/uint64, float promotion, string concatenation), exact integer comparison over the 65-bit extension, float64 comparison when a float is involved, lexicographic strings, boolean logic and negation, ill-typed operations and zero divisors are errors; the tree-level statement follows by structural induction (not mechanised); the parser listener's callbacks carry contracts too (literals hand over the parsed token text, operators go into their own field, the finished node itself is handed to its holder once, @name/@desc/@sal/@id hand over the enclosing rule's header, holders fill left before right); precedence/associativity (the ANTLR recogniser and the walk order) are NOT decided by contracts: bounded stand-in B01 in the thorough tier",
 "C02": "statement semantics: ghost monitors on the real Statements/If/Else/For/ForRange/Break/Continue/Return/Assignment/dispatcher Evaluate methods (in-order, first-true-branch, cond-before-iteration, step-after-continue, each key once, innermost-loop sentinels, rhs-before-write, no write on error); the listener callbacks and holders that wire statements into the tree (block hand-over, else-if append, for init/step, forRange header) carry contracts; expression values are trusted (C01); bounded stand-in B02 in the thorough tier",
 "C04": "sort model: loop contract + ghost monitor (k-th Execute call is on S[k], nothing after a failure in stop mode, error iff some rule failed) on the real SSA of the 5 sorted methods, discharged by SMT for all rule counts / failing subsets / both flag values; bounded stand-in B04 in the thorough tier",
 "C05": "mix / inverse-mix / N-M: fork/join protocol (Add total == forks, each task Execute once then Done last, Wait between stages) + window and stage monitors on 10 methods and their goroutine closures; schedule-independent; bounded stand-in B05 in the thorough tier",
 "C06": "pool isolation: every pooled entry point runs on an instance it owns (getGengine ownership ghost), injects only into that instance's DataContext, hands back a result map that is fresh per call, and its deferred closure deletes exactly the injected keys before the instance is returned; DataContext.Add/Del functional contracts",
 "C07": "update atomicity: each request snapshots (Kc, Dc) once under updateLock; full/incremental/removal/clear build a fresh container and publish it to master and every instance under updateLock (monitor invariant poolRules: all instances sameView as master); the merge never writes the installed container (frame)",
 "C08": "rule-set algebra: full build, builder incremental build, pool incremental merge and removal proved against the abstract view (name -> entity map, sorted list, index map agree: wfKc) with loop invariants incl. explicit position witnesses for delete+insert; BinarySearch proved; rule registration by the listener (own name, duplicates refused); bounded stand-in B08 in the thorough tier",
 "C09": "fault containment: RuleEntity.Execute structurally installs a recovering defer covering the whole rule body and converts the panic into its error result; every engine Execute* method and every goroutine body is proved panic-free given that contract (nil/index/slice/map/type-assert/division obligations); termination not decided",
 "C10": "compile entry points: success iff the text is non-blank and lexes/parses/walks cleanly (same predicate at all five entry points, through the ANTLR walk model) and on error the installed container and its fields are unchanged (frame); totality of the ANTLR runtime itself is not decided by contracts: bounded stand-in B10 in the thorough tier",
 "C11": "result map: allocated fresh at every Execute* entry; addResult called exactly for rules whose Execute reported the returned flag, with that value, under the result lock; ReturnStatement sets the flag only on success",
 "C12": "selected variants: selection-loop invariant with explicit witness arrays (rules == existing names in order), assumed stable-sort model with permutation witness, then the model's monitor over exactly that slice",
 "C13": "DAG model: per-layer fork/join with Wait between layers, unknown names skipped, a failed layer stops the rest and returns an error",
 "C14": "stop-tag variants: the tag is read after each rule and ends the loop; without a set tag the monitors coincide with the untagged variant's",
 "C15": "rule locals: RuleEntity.Execute allocates a fresh local map per execution (monitor freshlocals) passed down by value; DataContext.GetValue/SetValue never store locals in the shared context (frame) and resolve injected names first",
 "C16": "pool management: each operation re-establishes the pool monitor invariant (master and all min+addition instances denote the same container; clear => empty) under updateLock, and each query returns the master's value under the same lock; SetExecModel range-checked",
 "C17": "pool capacity: getGengine returns an instance removed from the free/addition lists (ownership ghost, never two owners), never fails, and every pooled entry point's deferred closure hands the instance back on normal, error and panic exits (exceptional-path obligations); waiting liveness not decided",
 "C18": "conc blocks: fork/join protocol over the four statement lists (each statement forked once, evaluated once, Done last, Wait before the block returns), first error kept under the block's mutex, error iff some statement failed",
 "C19": "race freedom of gengine's own state as lock discipline: every access to a field declared guarded_by/access_under happens with its lock held (pool lists, rbSlice/ruleBuilder/clear/execModel, DataContext.base, result map), locks balanced on all paths; fork/join-ordered accesses by FJ",
 "C20": "error positions: the recovering closures of Assignment and the three call nodes cite the node's LineNum/SourceCode (fmt model), call errors are wrapped with the cited line, and nothing else is changed on the error path; expression-level errors cite the failing operator node, and the listener hands every citing node to its parent with LineNum / Column / Code of its own start token (monitors on the eight hand-over callbacks); trusted: that ANTLR's token line is the 1-based text line; bounded stand-in B20 in the thorough tier",
}
NA = {
}
def main():
    man = json.load(open(os.path.join(V, "MANIFEST.json")))
    props = [json.loads(l)["id"] for l in open(os.path.join(V, "properties.jsonl"))]
    checks = []
    for p in props:
        if p not in CLAIMS:
            continue
        checks.append({"property_id": p, "quick_cmd": f"/verif/bin/check {p} --tier quick", "thorough_cmd": f"/verif/bin/check {p} --tier thorough",
                       "evidence_file": f"/verif/evidence/{p}.json", "replay_cmd_template": f"/verif/bin/check {p} --replay {{path}}", "engine": "govc",
                       "level_claimed": {"category": "proof", "text": CLAIMS[p], "design_ref": f"DESIGN.md §3 {p}"}, "level_note": NOTE, "technique": TECH})
    man["checks"] = checks
    man["not_applicable"] = [{"property_id": p, "reason": NA.get(p, "not claimed")} for p in props if p not in CLAIMS]
    man["engines"] = [{"name": "govc", "path": "/verif/govc", "serves_properties": [c["property_id"] for c in checks],
                       "kind_free_text": "weakest-precondition / path-wise symbolic execution VC generator over go/ssa of /repo with contracts in //@ comments, SMT back ends z3-new, z3, cvc5"}]
    r = subprocess.run(["git", "-C", "/repo", "log", "--format=%h %s"], capture_output=True, text=True).stdout.splitlines()
    man["hooks"]["source_commits"] = [l.split()[0] for l in r if " verif hook:" in " " + l]
    man["hooks"]["fix_commits"] = [l.split()[0] for l in r if l.split(" ", 1)[1].startswith("fix:")]
    json.dump(man, open(os.path.join(V, "MANIFEST.json"), "w"), indent=1)
    print(len(checks), "checks;", len(man["not_applicable"]), "not applicable")
if __name__ == "__main__":
    main()
